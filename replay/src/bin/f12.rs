// F12 (C13, batch_append = true): "Every append is a contiguous slice of the leader's own log anchored at an (index, term) of that log".
// util::is_continuous_ents answers true whenever the pending MsgAppend carries no entries, without comparing msg.index + 1 with the first new entry:
// an empty MsgAppend (index 11) left in the outbox, then MsgUnreachable (peer back to Probe, next_idx 2), then a proposal: entries 2..=12 are batched
// onto the message whose anchor is still 11. The follower accepts it and acknowledges index 22; the leader records matched = 22 beyond its own log.
// (reproducer by a sub-agent, adapted)
use raft::eraftpb::{Entry, Message, MessageType};
use raft::storage::MemStorage;
use raft::{Config, Raft};

fn cfg(id: u64) -> Config {
    Config {
        id,
        election_tick: 10,
        heartbeat_tick: 1,
        max_size_per_msg: u64::MAX,
        max_inflight_msgs: 256,
        ..Default::default()
    }
}

fn persist(r: &mut Raft<MemStorage>) {
    let ents: Vec<Entry> = r.raft_log.unstable_entries().to_vec();
    if let Some(last) = ents.last() {
        let (i, t) = (last.index, last.term);
        r.raft_log.mut_store().wl().append(&ents).unwrap();
        r.raft_log.stable_entries(i, t);
        r.on_persist_entries(i, t);
    }
}

fn msg(from: u64, to: u64, t: MessageType, term: u64) -> Message {
    let mut m = Message::default();
    m.from = from;
    m.to = to;
    m.term = term;
    m.set_msg_type(t);
    m
}


fn main() {
    let l = slog::Logger::root(slog::Discard, slog::o!());
    let mk = |id| {
        Raft::new(
            &cfg(id),
            MemStorage::new_with_conf_state((vec![1, 2, 3], vec![])),
            &l,
        )
        .unwrap()
    };
    let mut r1 = mk(1);
    let mut r2 = mk(2);
    r1.become_candidate();
    r1.become_leader();
    r1.set_batch_append(true);
    let term = r1.term;
    persist(&mut r1);
    // noop replicated to 2 and 3
    r1.bcast_append();
    for m in r1.msgs.drain(..).collect::<Vec<_>>() {
        if m.to == 2 {
            r2.step(m).unwrap();
        }
    }
    persist(&mut r2);
    for m in r2.msgs.drain(..).collect::<Vec<_>>() {
        r1.step(m).unwrap();
    }
    let mut a3 = msg(3, 1, MessageType::MsgAppendResponse, term);
    a3.index = 1;
    r1.step(a3).unwrap();
    r1.msgs.clear();

    // 10 proposals -> entries 2..=11, one batched MsgAppend per peer; sent.
    for _ in 0..10 {
        let mut p = msg(1, 1, MessageType::MsgPropose, 0);
        p.mut_entries().push(Entry::default());
        r1.step(p).unwrap();
    }
    persist(&mut r1);
    let sent: Vec<Message> = r1.msgs.drain(..).collect();
    // node 2 does receive them (and persists), but its ack is slow / lost.
    for m in sent.iter().filter(|m| m.to == 2) {
        r2.step(m.clone()).unwrap();
    }
    persist(&mut r2);
    r2.msgs.clear();
    assert_eq!(r2.raft_log.last_index(), 11);

    // node 3 acks 11 -> commit 11 -> bcast_append: node 2 gets an EMPTY MsgAppend (prev=11)
    let mut a3 = msg(3, 1, MessageType::MsgAppendResponse, term);
    a3.index = 11;
    r1.step(a3).unwrap();
    assert_eq!(r1.raft_log.committed, 11);
    println!("pending after commit: {:?}", r1.msgs);

    // transport reports node 2 unreachable -> Replicate -> Probe, next = matched + 1 = 2
    r1.step(msg(2, 1, MessageType::MsgUnreachable, 0)).unwrap();
    // next proposal -> entry 12 -> send_append(2) with entries 2..=12, batched onto the
    // pending empty MsgAppend whose index is still 11.
    let mut p = msg(1, 1, MessageType::MsgPropose, 0);
    p.mut_entries().push(Entry::default());
    r1.step(p).unwrap();
    persist(&mut r1);
    let to2: Vec<Message> = r1
        .msgs
        .drain(..)
        .filter(|m| m.to == 2 && m.get_msg_type() == MessageType::MsgAppend)
        .collect();
    for m in &to2 {
        println!(
            "MsgAppend to 2: index={} log_term={} commit={} entries={:?}",
            m.index,
            m.log_term,
            m.commit,
            m.entries.iter().map(|e| e.index).collect::<Vec<_>>()
        );
    }
    for m in to2 {
        r2.step(m).unwrap();
    }
    persist(&mut r2);
    println!("node 2 last_index = {}", r2.raft_log.last_index());
    for m in r2.msgs.drain(..).collect::<Vec<_>>() {
        println!("node 2 answers: index={} reject={}", m.index, m.reject);
        r1.step(m).unwrap();
    }
    let pr = r1.prs().get(2).unwrap();
    println!(
        "leader: last_index={} progress(2).matched={} next_idx={}",
        r1.raft_log.last_index(),
        pr.matched,
        pr.next_idx
    );
    if pr.matched > r1.raft_log.last_index() { println!("VIOLATION C13: an append was anchored at index 11 but carried entries from index 2; the leader believes node 2 matches index {} but its own log ends at {}", pr.matched, r1.raft_log.last_index()); std::process::exit(1); }
    println!("ok: appends stay anchored");
}

