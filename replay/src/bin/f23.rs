// F23 (C13): Progress::maybe_decr_to accepted, in Probe state, any rejection with rejected == next_idx - 1, without comparing it
// with matched.  After Replicate -> Probe (next_idx = matched + 1) a reordered old rejection of an index the follower has
// acknowledged since passed that test: nothing was learnt (next_idx stays matched + 1), the progress was un-paused and
// handle_append_response sent a second entry-carrying append while the first probe was still outstanding.
// Leader 1, follower 3: appends A2 (prev 1) and A3 (prev 2) are reordered; 3 rejects A3 (index 2), then acknowledges index 2;
// the acknowledgement overtakes the rejection; MsgUnreachable -> Probe; a proposal sends the one probe (prev 2); the old
// rejection arrives -> second probe.  (scenario by a sub-agent)
use raft::eraftpb::{Message, MessageType};
use raft::storage::MemStorage;
use raft::{Config, ProgressState, RawNode, StateRole};

fn new_msg(from: u64, to: u64, ty: MessageType, term: u64) -> Message {
    let mut m = Message::default();
    m.from = from;
    m.to = to;
    m.term = term;
    m.set_msg_type(ty);
    m
}

fn drain(node: &mut RawNode<MemStorage>) -> Vec<Message> {
    let mut out = vec![];
    while node.has_ready() {
        let mut rd = node.ready();
        out.extend(rd.take_messages());
        if !rd.entries().is_empty() {
            node.mut_store().wl().append(rd.entries()).unwrap();
        }
        if let Some(hs) = rd.hs() {
            node.mut_store().wl().set_hardstate(hs.clone());
        }
        out.extend(rd.take_persisted_messages());
        let mut light = node.advance(rd);
        if let Some(commit) = light.commit_index() {
            node.mut_store().wl().mut_hard_state().set_commit(commit);
        }
        out.extend(light.take_messages());
        node.advance_apply();
    }
    out
}

fn appends_with_entries(msgs: &[Message], to: u64) -> Vec<&Message> {
    msgs.iter()
        .filter(|m| {
            m.get_msg_type() == MessageType::MsgAppend && m.to == to && !m.entries.is_empty()
        })
        .collect()
}

fn ack(from: u64, term: u64, index: u64) -> Message {
    let mut m = new_msg(from, 1, MessageType::MsgAppendResponse, term);
    m.index = index;
    m
}

fn scenario() {
    let logger = slog::Logger::root(slog::Discard, slog::o!());
    let storage = MemStorage::new_with_conf_state((vec![1, 2, 3], vec![]));
    let cfg = Config {
        id: 1,
        election_tick: 10,
        heartbeat_tick: 1,
        max_inflight_msgs: 256,
        max_size_per_msg: 0, // one entry per append
        ..Default::default()
    };
    let mut node = RawNode::new(&cfg, storage, &logger).unwrap();

    node.campaign().unwrap();
    let _ = drain(&mut node);
    let term = node.raft.term;
    node.step(new_msg(2, 1, MessageType::MsgRequestVoteResponse, term))
        .unwrap();
    assert_eq!(node.raft.state, StateRole::Leader);
    let _ = drain(&mut node);
    node.step(ack(2, term, 1)).unwrap();
    node.step(ack(3, term, 1)).unwrap();
    let _ = drain(&mut node);
    assert_eq!(
        node.raft.prs().get(3).unwrap().state,
        ProgressState::Replicate
    );

    // 1. A2 and A3 go out to node 3.
    node.propose(vec![], b"a".to_vec()).unwrap(); // index 2
    node.propose(vec![], b"b".to_vec()).unwrap(); // index 3
    let msgs = drain(&mut node);
    let to3 = appends_with_entries(&msgs, 3);
    assert_eq!(to3.len(), 2);
    assert_eq!((to3[0].index, to3[1].index), (1, 2));

    // 2. What node 3 answers when it receives A3 before A2 (a real follower whose log ends
    //    at index 1 produces exactly these two messages):
    let mut stale_reject = new_msg(3, 1, MessageType::MsgAppendResponse, term);
    stale_reject.index = 2; // the rejected append was anchored at index 2
    stale_reject.reject = true;
    stale_reject.reject_hint = 1;
    stale_reject.log_term = term;
    stale_reject.commit = 1;
    let ack_2 = ack(3, term, 2);

    // 3. The acknowledgement overtakes the rejection.
    node.step(ack(2, term, 3)).unwrap();
    node.step(ack_2).unwrap();
    let _ = drain(&mut node);
    assert_eq!(node.raft.prs().get(3).unwrap().matched, 2);

    node.report_unreachable(3);
    assert_eq!(node.raft.prs().get(3).unwrap().state, ProgressState::Probe);
    node.propose(vec![], b"c".to_vec()).unwrap(); // index 4
    let msgs = drain(&mut node);
    let probes = appends_with_entries(&msgs, 3);
    assert_eq!(probes.len(), 1, "the one probe");
    assert_eq!(probes[0].index, 2);
    assert!(node.raft.prs().get(3).unwrap().is_paused());

    // 4. The reordered, stale rejection arrives: node 3 has acknowledged index 2 since.
    node.step(stale_reject).unwrap();
    let msgs = drain(&mut node);
    let extra = appends_with_entries(&msgs, 3);
    assert!(
        extra.is_empty(),
        "C13: a stale rejection (index 2 <= matched 2) made the leader send a second \
         entry-carrying append to the probing follower while its probe is outstanding: {:?}",
        extra
    );
}

fn main() {
    std::panic::set_hook(Box::new(|i| { println!("panic: {}", i); }));
    match std::panic::catch_unwind(scenario) {
        Err(_) => { println!("VIOLATION C13: two entry-carrying appends outstanding toward a probing follower"); std::process::exit(1) }
        Ok(()) => println!("ok: the stale rejection is ignored while the probe is outstanding"),
    }
}
