// F11 (C15): "A snapshot whose (index, term) already matches the local log, and that the node did not itself request, only
// advances the commit index and discards nothing."  A follower holds entries 1..=8 (5 committed; 6..=8 acknowledged to the
// leader, which may have committed them on that ack).  Its application calls request_snapshot(): the request names index 8.
// A delayed / duplicated OLDER MsgSnapshot(5, term 1) - not the one it asked for, and matching its log - arrives.
// Raft::restore skips the "matches the local log" fast path merely because SOME request is pending, without checking that
// the snapshot is the requested one (index >= request index), installs it and throws the acknowledged entries 6..=8 away.
use raft::eraftpb::*;
use raft::storage::MemStorage;
use raft::{Config, Raft};
use slog::{o, Discard, Logger};
fn msg(from: u64, to: u64, ty: MessageType) -> Message { let mut m = Message::default(); m.set_msg_type(ty); m.from = from; m.to = to; m }
fn ent(i: u64, t: u64) -> Entry { let mut e = Entry::default(); e.index = i; e.term = t; e }
fn main() {
    let l = Logger::root(Discard, o!());
    let s = MemStorage::new_with_conf_state((vec![1, 2, 3], vec![]));
    let cfg = Config { id: 3, election_tick: 10, heartbeat_tick: 1, ..Default::default() };
    let mut r = Raft::new(&cfg, s, &l).unwrap();
    // leader 2 of term 2 replicates 1..=5 (term 1) and 6..=8 (term 2); it has committed up to 5 so far
    let mut app = msg(2, 3, MessageType::MsgAppend); app.term = 2; app.index = 0; app.log_term = 0; app.commit = 5;
    app.entries = (1..=5).map(|i| ent(i, 1)).chain((6..=8).map(|i| ent(i, 2))).collect::<Vec<_>>().into();
    r.step(app).unwrap();
    let ack = r.msgs.drain(..).find(|m| m.get_msg_type() == MessageType::MsgAppendResponse).unwrap();
    println!("follower acknowledged index {} (reject = {}), commit index {}", ack.index, ack.reject, r.raft_log.committed);
    // the application asks for a snapshot: the request names the last index (8)
    r.request_snapshot().unwrap();
    println!("pending_request_snapshot = {}", r.pending_request_snapshot);
    // an OLDER snapshot (5, term 1), sent by the leader long ago, arrives now
    let mut snap = Snapshot::default();
    snap.mut_metadata().index = 5; snap.mut_metadata().term = 1; snap.mut_metadata().mut_conf_state().voters = vec![1, 2, 3];
    let mut m = msg(2, 3, MessageType::MsgSnapshot); m.term = 2; m.set_snapshot(snap);
    let matches = r.raft_log.match_term(5, 1);
    r.step(m).unwrap();
    println!("snapshot (5, term 1) matches the local log: {}; last index after handling it: {}", matches, r.raft_log.last_index());
    if r.raft_log.last_index() < 8 { println!("VIOLATION C15: a snapshot the node did not request (older than its request) that matches its log discarded the acknowledged entries 6..=8"); std::process::exit(1); }
    println!("ok: nothing discarded");
}
