// Replay monitor for C12: the REAL Changer / ProgressTracker::apply_conf of /repo vs the set-based reference semantics
// (the same step function the Verus contracts use), under random sequences of simple / enter_joint / leave_joint
// changes with random change lists (ids 0..6, repeated ids included), starting from a bootstrap configuration.
// After every accepted change: configuration == model, progress ids == members (exactly), voters/learners disjoint,
// staged learners inside outgoing, >= 1 voter, simple changed <= 1 voter; a rejected change left everything untouched;
// and the ConfState round trip (Raft::new on a storage holding to_conf_state()) reproduces the configuration.
// Witness finder + bounded replay; never proof.
// usage: mon_c12 [--seed N] [--cases K] [--replay '{"seed":S,"case":K}']
use raft::eraftpb::{ConfChangeSingle, ConfChangeType, ConfState};
use raft::storage::MemStorage;
use raft::{Changer, Config, ProgressTracker, Raft};
use slog::{o, Discard, Logger};
use std::collections::BTreeSet;

struct Rng(u64);
impl Rng { fn next(&mut self) -> u64 { self.0 ^= self.0 << 13; self.0 ^= self.0 >> 7; self.0 ^= self.0 << 17; self.0 } fn below(&mut self, n: u64) -> u64 { if n == 0 { 0 } else { self.next() % n } } }

type S = BTreeSet<u64>;
#[derive(Clone, Debug, PartialEq)]
struct M { inc: S, out: S, learners: S, ln: S, auto_leave: bool, dom: S }
#[derive(Clone, Debug)]
enum Op { Simple(Vec<(u8, u64)>), Enter(bool, Vec<(u8, u64)>), Leave }

fn cc(t: u8, id: u64) -> ConfChangeSingle { let mut c = ConfChangeSingle::default(); c.set_change_type(match t { 0 => ConfChangeType::AddNode, 1 => ConfChangeType::AddLearnerNode, _ => ConfChangeType::RemoveNode }); c.node_id = id; c }

fn step(m: &mut M, t: u8, id: u64) {
    if id == 0 { return; }
    let tracked = m.dom.contains(&id);
    match t {
        0 => { if !tracked { m.inc.insert(id); m.dom.insert(id); } else { m.inc.insert(id); m.learners.remove(&id); m.ln.remove(&id); } }
        1 => { if !tracked { m.learners.insert(id); m.dom.insert(id); } else if !m.learners.contains(&id) { m.inc.remove(&id); m.ln.remove(&id); if m.out.contains(&id) { m.ln.insert(id); } else { m.learners.insert(id); } } }
        _ => { if tracked { m.inc.remove(&id); m.learners.remove(&id); m.ln.remove(&id); if !m.out.contains(&id) { m.dom.remove(&id); } } }
    }
}
// model of one change: Some(new) if accepted
fn model(m: &M, op: &Op) -> Option<M> {
    let mut n = m.clone();
    match op {
        Op::Simple(l) => { if !m.out.is_empty() { return None; } for (t, id) in l { step(&mut n, *t, *id); } if n.inc.is_empty() { return None; } if n.inc.symmetric_difference(&m.inc).count() > 1 { return None; } }
        Op::Enter(al, l) => { if !m.out.is_empty() || m.inc.is_empty() { return None; } n.out = m.inc.clone(); for (t, id) in l { step(&mut n, *t, *id); } if n.inc.is_empty() { return None; } n.auto_leave = *al; }
        Op::Leave => { if m.out.is_empty() { return None; } n.learners.extend(m.ln.iter().cloned()); n.ln.clear(); for id in &m.out { if !n.inc.contains(id) && !n.learners.contains(id) { n.dom.remove(id); } } n.out.clear(); n.auto_leave = false; }
    }
    Some(n)
}
fn view(t: &ProgressTracker) -> M {
    let cs = t.conf().to_conf_state();   // the public rendering of the configuration (JointConfig's halves are private)
    M { inc: cs.voters.iter().cloned().collect(), out: cs.voters_outgoing.iter().cloned().collect(), learners: cs.learners.iter().cloned().collect(),
        ln: cs.learners_next.iter().cloned().collect(), auto_leave: cs.auto_leave, dom: t.iter().map(|(id, _)| *id).collect() }
}
fn invariant(m: &M) -> Option<String> {
    let members: S = m.inc.iter().chain(m.out.iter()).chain(m.learners.iter()).chain(m.ln.iter()).cloned().collect();
    if members != m.dom { return Some(format!("progress is tracked for {:?} but the members are {:?}", m.dom, members)); }
    if m.learners.iter().any(|x| m.inc.contains(x) || m.out.contains(x)) { return Some(format!("voters {:?}/{:?} and learners {:?} intersect", m.inc, m.out, m.learners)); }
    if !m.ln.is_subset(&m.out) { return Some(format!("staged learners {:?} outside the outgoing voters {:?}", m.ln, m.out)); }
    if m.inc.is_empty() { return Some("no voter left".to_string()); }
    if m.out.is_empty() && (!m.ln.is_empty() || m.auto_leave) { return Some("staged learners / auto-leave outside a joint configuration".to_string()); }
    None
}
macro_rules! guard { ($what:expr, $e:expr) => { match std::panic::catch_unwind(std::panic::AssertUnwindSafe(|| $e)) { Ok(v) => v, Err(_) => return Some(format!("{} panicked", $what)) } } }

fn run(ops: &[Op]) -> Option<String> {
    let mut t = ProgressTracker::new(16);
    // bootstrap: voters 1,2,3 one at a time
    for id in 1..=3 { let (cfg, ch) = Changer::new(&t).simple(&[cc(0, id)]).unwrap(); t.apply_conf(cfg, ch, 1); }
    for (k, op) in ops.iter().enumerate() {
        let before = view(&t);
        let want = model(&before, op);
        let got = guard!(format!("{:?}", op), match op {
            Op::Simple(l) => Changer::new(&t).simple(&l.iter().map(|(a, b)| cc(*a, *b)).collect::<Vec<_>>()),
            Op::Enter(al, l) => Changer::new(&t).enter_joint(*al, &l.iter().map(|(a, b)| cc(*a, *b)).collect::<Vec<_>>()),
            Op::Leave => Changer::new(&t).leave_joint(),
        });
        match (got, want) {
            (Err(_), None) => { if view(&t) != before { return Some(format!("op #{} {:?}: rejected, but the tracker changed", k, op)); } }
            (Err(e), Some(w)) => return Some(format!("op #{} {:?}: rejected ({:?}) although the reference semantics accepts it with result {:?}", k, op, e, w)),
            (Ok(_), None) => return Some(format!("op #{} {:?}: accepted although the reference semantics rejects it (before: {:?})", k, op, before)),
            (Ok((cfg, ch)), Some(w)) => {
                guard!("apply_conf", t.apply_conf(cfg, ch, 1));
                let after = view(&t);
                if after != w { return Some(format!("op #{} {:?}: configuration/progress {:?} but the reference semantics says {:?}", k, op, after, w)); }
                if let Some(x) = invariant(&after) { return Some(format!("op #{} {:?}: {}", k, op, x)); }
                if matches!(op, Op::Simple(_)) && after.inc.symmetric_difference(&before.inc).count() > 1 { return Some(format!("op #{} {:?}: a simple change altered the voters {:?} -> {:?} by more than one member", k, op, before.inc, after.inc)); }
                // ConfState round trip through a restart
                let cs: ConfState = t.conf().to_conf_state();
                let store = MemStorage::new_with_conf_state(cs);
                let logger = Logger::root(Discard, o!());
                let cfg = Config { id: 1, election_tick: 10, heartbeat_tick: 1, ..Default::default() };
                let r = guard!("Raft::new (restore)", Raft::new(&cfg, store, &logger));
                match r { Err(e) => return Some(format!("op #{} {:?}: restoring the ConfState of {:?} failed: {:?}", k, op, after, e)),
                          Ok(r) => { let rv = view(r.prs()); if rv != after { return Some(format!("op #{} {:?}: restoring the ConfState gives {:?}, the configuration was {:?}", k, op, rv, after)); } } }
            }
        }
    }
    None
}
fn gen(rng: &mut Rng) -> Vec<Op> {
    let n = 1 + rng.below(8); let mut ops = vec![];
    let list = |rng: &mut Rng| -> Vec<(u8, u64)> { (0..rng.below(5)).map(|_| (rng.below(3) as u8, rng.below(7))).collect() };
    for _ in 0..n { ops.push(match rng.below(6) { 0..=2 => Op::Simple(list(rng)), 3 | 4 => Op::Enter(rng.below(2) == 0, list(rng)), _ => Op::Leave }); }
    ops
}
fn main() {
    let args: Vec<String> = std::env::args().collect();
    let mut seed = 1u64; let mut cases = 20000u64; let mut replay: Option<String> = None; let mut i = 1;
    while i < args.len() { match args[i].as_str() { "--seed" => { seed = args[i + 1].parse().unwrap(); i += 1 } "--cases" => { cases = args[i + 1].parse().unwrap(); i += 1 } "--replay" => { replay = Some(args[i + 1].clone()); i += 1 } _ => {} } i += 1; }
    std::panic::set_hook(Box::new(|_| {}));
    let one = |seed: u64, upto: u64, only_last: bool| -> Option<(u64, Vec<Op>, String)> {
        let mut rng = Rng(seed.wrapping_mul(0x9E3779B97F4A7C15) | 1);
        for k in 0..=upto { let ops = gen(&mut rng); if only_last && k != upto { continue; } if let Some(w) = run(&ops) { return Some((k, ops, w)); } }
        None };
    if let Some(r) = replay {
        let nums: Vec<u64> = r.split(|c: char| !c.is_ascii_digit()).filter(|s| !s.is_empty()).map(|s| s.parse().unwrap()).collect();
        match one(nums[0], nums[1], true) { Some((k, ops, w)) => { println!("{{\"violation\":{:?},\"input\":{{\"seed\":{},\"case\":{},\"ops\":\"{:?}\"}}}}", w, nums[0], k, ops); std::process::exit(1) } None => { println!("{{\"ok\":true}}"); return } }
    }
    match one(seed, cases - 1, false) { Some((k, ops, w)) => { println!("{{\"violation\":{:?},\"input\":{{\"seed\":{},\"case\":{},\"ops\":\"{:?}\"}}}}", w, seed, k, ops); std::process::exit(1) } None => println!("{{\"ok\":true,\"cases\":{}}}", cases) }
}
