// F8 (C09): "a proposal that would ... enter a joint configuration while already joint ... is replaced by an empty normal
// entry".  The proposal filter of the leader classifies a ConfChangeV2 as "wants to leave joint" by `changes.is_empty()`,
// while the apply path (ConfChangeV2::leave_joint) also requires transition == Auto.  A ConfChangeV2 with NO changes and
// an Explicit (or Implicit) transition is an enter-joint request; proposed while the configuration is already joint it
// passes the filter unchanged, occupies the single membership slot, and fails when applied ("config is already joint").
use raft::eraftpb::*;
use raft::storage::MemStorage;
use raft::{Config, Raft};
use slog::{o, Discard, Logger};
use protobuf::Message as _;
fn persist(r: &mut Raft<MemStorage>) {
    let ents = r.raft_log.unstable_entries().to_vec();
    if let Some(e) = ents.last() { r.raft_log.store.wl().append(&ents).unwrap(); r.raft_log.stable_entries(e.index, e.term); r.on_persist_entries(e.index, e.term); }
    let c = r.raft_log.committed; r.commit_apply(c);
}
fn main() {
    let l = Logger::root(Discard, o!());
    let store = MemStorage::new_with_conf_state((vec![1], vec![]));
    let cfg = Config { id: 1, election_tick: 10, heartbeat_tick: 1, max_size_per_msg: 1 << 20, max_inflight_msgs: 16, ..Default::default() };
    let mut r = Raft::new(&cfg, store, &l).unwrap();
    r.become_candidate(); r.become_leader();
    persist(&mut r);   // everything written, committed and applied
    // enter a joint configuration explicitly: (1)&&(1) + learner 2
    let mut cc = ConfChangeV2::default();
    let mut s = ConfChangeSingle::default(); s.set_change_type(ConfChangeType::AddLearnerNode); s.node_id = 2;
    cc.set_changes(vec![s].into()); cc.set_transition(ConfChangeTransition::Explicit);
    r.apply_conf_change(&cc).unwrap();
    persist(&mut r);
    println!("configuration: {:?}", r.prs().conf().to_conf_state());
    // while joint: propose an enter-joint request (Explicit transition) without changes
    let mut again = ConfChangeV2::default(); again.set_transition(ConfChangeTransition::Explicit);
    println!("the proposal is an enter-joint request: enter_joint() = {:?}, leave_joint() = {}", again.enter_joint(), again.leave_joint());
    let mut e = Entry::default(); e.set_entry_type(EntryType::EntryConfChangeV2); e.data = again.write_to_bytes().unwrap().into();
    let mut m = Message::default(); m.set_msg_type(MessageType::MsgPropose); m.from = 1; m.to = 1; m.set_entries(vec![e].into());
    r.step(m).unwrap();
    let last = r.raft_log.last_index();
    let ent = r.raft_log.entries(last, None, raft::GetEntriesContext::empty(false)).unwrap().pop().unwrap();
    println!("appended entry {}: type {:?}, {} payload bytes; pending_conf_index {}", last, ent.get_entry_type(), ent.data.len(), r.pending_conf_index);
    if ent.get_entry_type() != EntryType::EntryNormal {
        println!("applying it: {:?}", r.apply_conf_change(&again).map(|_| ()));
        println!("VIOLATION C09: an enter-joint proposal made while already joint was not replaced by an empty normal entry");
        std::process::exit(1);
    }
    println!("ok: replaced by an empty normal entry");
}
