// F18 (C20 / C14 restart window) and F19 (C15): a node restarts with Config::applied = 4 ahead of its durable commit index 1
// (the documented restart window of apply-before-persist; Raft::new accepts it).
//  F18: the first Ready + RawNode::advance re-reports applied = 4 through advance_apply_to and RaftLog::applied_to aborts:
//       "applied(4) is out of range [prev_applied(4), committed(1)]" although nothing new is claimed.
//  F19: a snapshot at index 3, between commit 1 and applied 4, is accepted by Raft::restore (it only compares with the commit
//       index) and RawNode::ready trips assert!(commit_since_index <= snapshot index): the application would be told to
//       install a snapshot older than its state machine.   (scenarios by a sub-agent)
use raft::eraftpb::{Entry, HardState, Message, MessageType, Snapshot};
use raft::storage::MemStorage;
use raft::{Config, RawNode};
use slog::{o, Discard, Logger};
fn config(applied: u64) -> Config { Config { id: 1, election_tick: 10, heartbeat_tick: 1, max_inflight_msgs: 256, applied, ..Default::default() } }
fn msg(from: u64, ty: MessageType, term: u64) -> Message { let mut m = Message::default(); m.from = from; m.to = 1; m.term = term; m.set_msg_type(ty); m }
fn entry(index: u64, term: u64) -> Entry { let mut e = Entry::default(); e.index = index; e.term = term; e }
fn crashed_store() -> MemStorage {
    let store = MemStorage::new_with_conf_state((vec![1, 2, 3], vec![]));
    store.wl().append(&[entry(1, 1)]).unwrap();
    let mut hs = HardState::default(); hs.term = 1; hs.vote = 1; hs.commit = 1;
    store.wl().set_hardstate(hs);
    store
}
fn s1() {
    let logger = Logger::root(Discard, o!());
    let store = crashed_store();
    let mut node = RawNode::new(&config(4), store.clone(), &logger).unwrap();
    let mut hb = msg(2, MessageType::MsgHeartbeat, 2); hb.commit = 1;
    node.step(hb).unwrap();
    let rd = node.ready();
    store.wl().set_hardstate(rd.hs().unwrap().clone());
    let _ = node.advance(rd);
}
fn s2() -> bool {
    let logger = Logger::root(Discard, o!());
    let mut node = RawNode::new(&config(4), crashed_store(), &logger).unwrap();
    let mut snap = Snapshot::default();
    snap.mut_metadata().index = 3; snap.mut_metadata().term = 1; snap.mut_metadata().mut_conf_state().voters = vec![1, 2, 3];
    let mut m = msg(2, MessageType::MsgSnapshot, 2); m.set_snapshot(snap);
    node.step(m).unwrap();
    let rd = node.ready();
    rd.snapshot().is_empty() || rd.snapshot().get_metadata().index >= 4
}
fn main() {
    std::panic::set_hook(Box::new(|i| { println!("panic: {}", i); }));
    let which = std::env::args().nth(1).unwrap_or_default();
    if which != "s2" {
        match std::panic::catch_unwind(s1) { Err(_) => { println!("VIOLATION C20: RawNode::advance aborted after a restart with applied ahead of the durable commit index"); std::process::exit(1) } Ok(()) => println!("ok (s1): advance after the restart does not abort") }
    }
    if which != "s1" {
        match std::panic::catch_unwind(s2) { Err(_) | Ok(false) => { println!("VIOLATION C15: a snapshot older than the applied index was accepted after the restart"); std::process::exit(1) } Ok(true) => println!("ok (s2): the snapshot behind the applied index is ignored") }
    }
}
