// F10 (C20): a follower installs a snapshot; the application has written it (advance_append) but is still applying it
// (advance_apply not called yet).  The election timer fires: Raft::hup scans [applied+1, committed+1) for unapplied
// membership changes, but those entries are covered by the snapshot and gone from the log -> fatal!/panic
// ("error scanning unapplied entries ... Compacted").  Ticking between advance_append and advance_apply is what the
// asynchronous-apply API is for.
use raft::eraftpb::*;
use raft::storage::MemStorage;
use raft::{Config, RawNode, Storage};
use slog::{o, Discard, Logger};
fn msg(from: u64, to: u64, ty: MessageType) -> Message { let mut m = Message::default(); m.set_msg_type(ty); m.from = from; m.to = to; m }
fn main() {
    let l = Logger::root(Discard, o!());
    let s = MemStorage::new_with_conf_state((vec![1, 2, 3], vec![]));
    let cfg = Config { id: 3, election_tick: 10, heartbeat_tick: 1, ..Default::default() };
    let mut rn = RawNode::new(&cfg, s.clone(), &l).unwrap();
    let mut snap = Snapshot::default();
    snap.mut_metadata().index = 10; snap.mut_metadata().term = 2; snap.mut_metadata().mut_conf_state().voters = vec![1, 2, 3];
    let mut m = msg(1, 3, MessageType::MsgSnapshot); m.term = 2; m.set_snapshot(snap);
    rn.step(m).unwrap();
    let rd = rn.ready();
    assert_eq!(rd.snapshot().get_metadata().index, 10);
    s.wl().apply_snapshot(rd.snapshot().clone()).unwrap();
    if let Some(hs) = rd.hs() { s.wl().set_hardstate(hs.clone()); }
    let _light = rn.advance_append(rd);
    println!("applied {} committed {} storage first_index {}", rn.raft.raft_log.applied, rn.raft.raft_log.committed, s.first_index().unwrap());
    // the application is still busy applying the snapshot; the election timeout fires
    let r = std::panic::catch_unwind(std::panic::AssertUnwindSafe(|| { for _ in 0..40 { rn.tick(); } }));
    match r { Err(_) => { println!("VIOLATION C20: tick() panicked while the snapshot was still being applied"); std::process::exit(1) }
              Ok(()) => println!("ok: no panic; state {:?}", rn.raft.state) }
}
