// F7 (C20): a lone voter (with a learner) that is deposed by a higher-term message while its newest entries are still
// being written (asynchronous Ready, persistence not yet reported) and then times out into a new election wins it at
// once and trips `assert_eq!(last_index, self.raft_log.persisted)` in become_leader: a panic under contract-abiding use.
use raft::prelude::*;
use raft::storage::MemStorage;
use slog::{o, Discard, Logger};
fn drive_async(n: &mut RawNode<MemStorage>, store: &MemStorage) {
    while n.has_ready() {
        let mut rd = n.ready();
        if !rd.entries().is_empty() { store.wl().append(rd.entries()).unwrap(); }
        if let Some(hs) = rd.hs() { store.wl().set_hardstate(hs.clone()); }
        let _ = rd.take_messages(); let _ = rd.take_persisted_messages(); let _ = rd.take_committed_entries();
        n.advance_append_async(rd);     // the write is queued; on_persist_ready comes when the (slow) disk is done
        n.advance_apply();
    }
}
fn main() {
    let logger = Logger::root(Discard, o!());
    let store = MemStorage::new_with_conf_state((vec![1], vec![2]));
    let cfg = Config { id: 1, election_tick: 10, heartbeat_tick: 1, max_size_per_msg: 1 << 20, max_inflight_msgs: 16, ..Default::default() };
    let mut n = RawNode::new(&cfg, store.clone(), &logger).unwrap();
    n.campaign().unwrap();                       // lone voter: leader of term 1, no-op entry 1 appended (unpersisted)
    drive_async(&mut n, &store);                 // Ready #1 queued for writing, not yet reported persisted
    // a heartbeat from a node that was removed from the group long ago but lives at a higher term
    let mut m = Message::default(); m.set_msg_type(MessageType::MsgHeartbeat); m.from = 3; m.to = 1; m.term = 5;
    n.step(m).unwrap();
    drive_async(&mut n, &store);
    println!("state {:?} term {} last_index {} persisted {}", n.raft.state, n.raft.term, n.raft.raft_log.last_index(), n.raft.raft_log.persisted);
    let r = std::panic::catch_unwind(std::panic::AssertUnwindSafe(|| {
        for _ in 0..40 { n.tick(); drive_async(&mut n, &store); }   // election timeout passes while the disk is still busy
    }));
    match r {
        Err(_) => { println!("VIOLATION C20: tick() panicked (become_leader: last index != persisted)"); std::process::exit(1) }
        Ok(()) => println!("ok: no panic; state {:?} term {}", n.raft.state, n.raft.term),
    }
}
