use raft::eraftpb::Entry;
use raft::storage::{MemStorage, Storage};
fn ent(i: u64, t: u64) -> Entry { let mut e = Entry::default(); e.index = i; e.term = t; e }
fn main() {
    let s = MemStorage::new();
    s.wl().append(&[ent(1,1), ent(2,1), ent(3,2), ent(4,2), ent(5,3)]).unwrap();
    println!("before: first={:?} last={:?} term(3)={:?} term(5)={:?}", s.first_index(), s.last_index(), s.term(3), s.term(5));
    s.wl().compact(6).unwrap();
    println!("after compact(6): first={:?} last={:?} term(3)={:?} term(5)={:?}", s.first_index(), s.last_index(), s.term(3), s.term(5));
    let r = std::panic::catch_unwind(|| { let s2 = MemStorage::new(); s2.entries(1, 1, None, raft::GetEntriesContext::empty(false)) });
    println!("F3 entries(1,1) on empty storage: {:?}", r.map(|x| x.map(|v| v.len())));
}
