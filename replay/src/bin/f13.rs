// F13 (C20): a leader that applies its own removal while one of its entries still awaits persistence panics in
// Raft::on_persist_entries (`self.mut_prs().get_mut(self_id).unwrap()` on an id that left the progress tracker); documented synchronous Ready order.
// (reproducer by a sub-agent, adapted)
//
//

use raft::eraftpb::{ConfChange, ConfChangeType, EntryType, Message, MessageType};
use raft::storage::MemStorage;
use raft::{Config, RawNode, StateRole};
use raft::protocompat::PbMessage as _;
use slog::{o, Discard, Logger};

fn persist_and_apply(n: &mut RawNode<MemStorage>, s: &MemStorage) {
    let mut rd = n.ready();
    let _ = rd.take_messages();
    if !rd.entries().is_empty() {
        s.wl().append(rd.entries()).unwrap();
    }
    if let Some(hs) = rd.hs() {
        s.wl().set_hardstate(hs.clone());
    }
    let _ = rd.take_persisted_messages();
    for e in rd.take_committed_entries() {
        if e.get_entry_type() == EntryType::EntryConfChange {
            let mut cc = ConfChange::default();
            cc.merge_from_bytes(e.get_data()).unwrap();
            let cs = n.apply_conf_change(&cc).unwrap();
            s.wl().set_conf_state(cs);
        }
    }
    let mut light = n.advance(rd); // <- panics here in the last call
    if let Some(c) = light.commit_index() {
        s.wl().mut_hard_state().commit = c;
    }
    for e in light.take_committed_entries() {
        if e.get_entry_type() == EntryType::EntryConfChange {
            let mut cc = ConfChange::default();
            cc.merge_from_bytes(e.get_data()).unwrap();
            let cs = n.apply_conf_change(&cc).unwrap();
            s.wl().set_conf_state(cs);
        }
    }
    n.advance_apply();
}

fn resp(ty: MessageType, from: u64, term: u64, index: u64) -> Message {
    let mut m = Message::default();
    m.set_msg_type(ty);
    m.from = from;
    m.to = 1;
    m.term = term;
    m.index = index;
    m
}


fn scenario() {
    let l = Logger::root(Discard, o!());
    let s = MemStorage::new_with_conf_state((vec![1, 2, 3], vec![]));
    let cfg = Config { id: 1, election_tick: 10, heartbeat_tick: 1, ..Default::default() };
    let mut n = RawNode::new(&cfg, s.clone(), &l).unwrap();

    n.campaign().unwrap();
    persist_and_apply(&mut n, &s);
    n.step(resp(MessageType::MsgRequestVoteResponse, 2, 1, 0)).unwrap();
    assert_eq!(n.raft.state, StateRole::Leader);
    persist_and_apply(&mut n, &s); // no-op entry 1
    n.step(resp(MessageType::MsgAppendResponse, 2, 1, 1)).unwrap();
    persist_and_apply(&mut n, &s); // commit 1

    // propose the removal of the leader itself: entry 2
    let mut cc = ConfChange::default();
    cc.set_change_type(ConfChangeType::RemoveNode);
    cc.node_id = 1;
    n.propose_conf_change(vec![], cc).unwrap();
    persist_and_apply(&mut n, &s); // entry 2 persisted
    // follower 2 acknowledges entry 2 -> committed
    n.step(resp(MessageType::MsgAppendResponse, 2, 1, 2)).unwrap();
    assert_eq!(n.raft.raft_log.committed, 2);
    // before the application looks at the next Ready, a client proposal arrives: entry 3
    n.propose(vec![], b"x".to_vec()).unwrap();
    // This Ready carries entry 3 (to persist) and committed entry 2 (to apply).
    persist_and_apply(&mut n, &s);
    // the removed leader keeps leading until it hears of a higher term: followers 2 and 3 acknowledge entry 3
    n.step(resp(MessageType::MsgAppendResponse, 2, 1, 3)).unwrap();
    n.step(resp(MessageType::MsgAppendResponse, 3, 1, 3)).unwrap();
    println!("commit index of the removed leader: {}", n.raft.raft_log.committed);
    persist_and_apply(&mut n, &s);
}
fn main() {
    std::panic::set_hook(Box::new(|i| { println!("panic: {}", i); }));
    match std::panic::catch_unwind(scenario) {
        Err(_) => { println!("VIOLATION C20: RawNode::advance panicked for a leader that applied its own removal with an entry in flight"); std::process::exit(1) }
        Ok(()) => println!("ok: no panic"),
    }
}
