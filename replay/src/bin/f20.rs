// F20 (C20): a node that has never seen a term (term 0) rejects a pre-vote request - possible only through the priority
// tie-break (equal logs, its own priority higher) - stamps the rejection with its own term 0, and RaftCore::send aborts with
// fatal!("term should be set when sending MsgRequestPreVoteResponse").  A fresh cluster with pre_vote = true and unequal
// priorities panics on the first election if the first node to time out has the lower priority.  (scenario by a sub-agent)
use raft::eraftpb::*;
use raft::storage::MemStorage;
use raft::{Config, RawNode};
use slog::{o, Discard, Logger};
fn main() {
    let l = Logger::root(Discard, o!());
    let mk = |id: u64, prio: i64| { let s = MemStorage::new_with_conf_state((vec![1, 2, 3], vec![]));
        let cfg = Config { id, election_tick: 10, heartbeat_tick: 1, pre_vote: true, priority: prio, ..Default::default() };
        RawNode::new(&cfg, s, &l).unwrap() };
    let mut n1 = mk(1, 0); let mut n2 = mk(2, 5);
    n1.campaign().unwrap();
    let mut rd = n1.ready();
    let mut out = rd.take_messages(); out.extend(rd.take_persisted_messages());
    let req = out.into_iter().find(|m| m.to == 2 && m.get_msg_type() == MessageType::MsgRequestPreVote).expect("pre-vote request to node 2");
    println!("node 1 (priority 0) asks node 2 (priority 5, term {}) for a pre-vote for term {}", n2.raft.term, req.term);
    std::panic::set_hook(Box::new(|i| { println!("panic: {}", i); }));
    match std::panic::catch_unwind(std::panic::AssertUnwindSafe(|| { n2.step(req).unwrap(); })) {
        Err(_) => { println!("VIOLATION C20: stepping a pre-vote request produced by a peer aborted the receiver"); std::process::exit(1) }
        Ok(()) => { let r = n2.raft.msgs.iter().map(|m| (m.get_msg_type(), m.reject, m.term)).collect::<Vec<_>>(); println!("ok: node 2 answered {:?}", r) }
    }
}
