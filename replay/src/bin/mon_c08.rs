// Replay monitor for C08 (ReadIndex in Safe mode), leader-level: ONE real RawNode<MemStorage> that leads a group of 1..=5 voters
// (elected and with an entry of its own term committed), driven with random read requests (local and forwarded by followers), removals of voters (committed and applied),
// heartbeat responses carrying the context of ANY issued read (older, newer, released ones; duplicated; from any voter), proposals
// and heartbeat ticks.  Checked at every Ready: a read is answered (ReadState for a local one, MsgReadIndexResp for a forwarded one)
// only when a quorum of the voters -- the leader plus the voters whose heartbeat response carried the context of THAT read or of a
// read queued AFTER it, received while that read was pending -- has confirmed the leadership; to the node that asked; with an index
// not below the leader's commit index when the request arrived.  Witness finder / bounded replay, never counted as proof.
// usage: mon_c08 [--seed N] [--cases K] [--replay 'seed case']   exit 1 + one JSON line `{"violation":..}` on a mismatch.
use raft::eraftpb::{ConfChange, ConfChangeType, Entry, EntryType, Message, MessageType};
use raft::storage::MemStorage;
use raft::{Config, RawNode, StateRole};
use slog::{o, Discard, Logger};
use std::collections::BTreeSet;

static STAT_WORLDS: std::sync::atomic::AtomicU64 = std::sync::atomic::AtomicU64::new(0);
static STAT_ANSWERS: std::sync::atomic::AtomicU64 = std::sync::atomic::AtomicU64::new(0);
static STAT_PENDING_ACKS: std::sync::atomic::AtomicU64 = std::sync::atomic::AtomicU64::new(0);
struct Rng(u64);
impl Rng { fn next(&mut self) -> u64 { self.0 ^= self.0 << 13; self.0 ^= self.0 >> 7; self.0 ^= self.0 << 17; self.0 } fn below(&mut self, n: u64) -> u64 { if n == 0 { 0 } else { self.next() % n } } }

#[derive(Debug, Clone)]
enum Op { ReadLocal, ReadFrom(u64), HbResp(u64, u64), HbRespPlain(u64), Propose, Tick, AckAll, Remove(u64) }

struct Read { ctx: Vec<u8>, from: u64, commit_at_issue: u64, acks: BTreeSet<u64>, released: bool }

struct World { n: u64, voters: BTreeSet<u64>, node: RawNode<MemStorage>, s: MemStorage, reads: Vec<Read>, term: u64 }

fn msg(t: MessageType, from: u64, term: u64) -> Message { let mut m = Message::default(); m.set_msg_type(t); m.from = from; m.to = 1; m.term = term; m }

impl World {
    fn new(n: u64) -> Option<World> {
        let l = Logger::root(Discard, o!());
        let s = MemStorage::new_with_conf_state(((1..=n).collect::<Vec<u64>>(), vec![]));
        let cfg = Config { id: 1, election_tick: 10, heartbeat_tick: 1, max_size_per_msg: 1 << 20, max_inflight_msgs: 64, ..Default::default() };
        let node = RawNode::new(&cfg, s.clone(), &l).ok()?;
        let mut w = World { n, voters: (1..=n).collect(), node, s, reads: vec![], term: 0 };
        w.node.campaign().ok()?;
        w.drain();
        w.term = w.node.raft.term;
        for j in 2..=n { if w.node.raft.state == StateRole::Leader { break; } let _ = w.node.step(msg(MessageType::MsgRequestVoteResponse, j, w.term)); w.drain(); }
        if w.node.raft.state != StateRole::Leader { return None; }
        let _ = w.ack_all();
        if w.node.raft.raft_log.committed < w.node.raft.raft_log.last_index() { return None; }
        Some(w)
    }
    fn ack_all(&mut self) -> Vec<(Vec<u8>, u64, u64)> {
        let last = self.node.raft.raft_log.last_index();
        let vs: Vec<u64> = self.voters.iter().cloned().filter(|j| *j != 1).collect();
        for j in vs { let mut m = msg(MessageType::MsgAppendResponse, j, self.term); m.index = last; let _ = self.node.step(m); }
        self.drain()
    }
    // a majority of the CURRENT voters (a removed voter's acknowledgement no longer counts)
    fn quorum(&self, set: &BTreeSet<u64>) -> bool { 2 * set.intersection(&self.voters).count() > self.voters.len() }
    // synchronous Ready loop; returns the answers released: (ctx, destination, index)
    fn drain(&mut self) -> Vec<(Vec<u8>, u64, u64)> {
        let mut out = vec![];
        for _ in 0..20 {
            if !self.node.has_ready() { break; }
            let mut rd = self.node.ready();
            let mut msgs = rd.take_messages();
            for rs in rd.take_read_states() { out.push((rs.request_ctx.clone(), 1, rs.index)); }
            if !rd.entries().is_empty() { self.s.wl().append(rd.entries()).unwrap(); }
            if let Some(hs) = rd.hs() { self.s.wl().set_hardstate(hs.clone()); }
            msgs.extend(rd.take_persisted_messages());
            let mut ce = rd.take_committed_entries();
            let mut light = self.node.advance(rd);
            if let Some(c) = light.commit_index() { self.s.wl().mut_hard_state().set_commit(c); }
            msgs.extend(light.take_messages());
            ce.extend(light.take_committed_entries());
            for e in ce { if e.get_entry_type() == EntryType::EntryConfChange && !e.data.is_empty() {
                // the application applies a committed membership change (a voter other than the leader is removed)
                use protobuf::Message as _;
                let mut cc = ConfChange::default();
                if cc.merge_from_bytes(e.get_data()).is_ok() { if let Ok(cs) = self.node.apply_conf_change(&cc) { self.voters = cs.voters.iter().cloned().collect(); self.s.wl().set_conf_state(cs); } }
            } }
            self.node.advance_apply();
            for m in msgs { if m.get_msg_type() == MessageType::MsgReadIndexResp && m.entries.len() == 1 { out.push((m.entries[0].data.to_vec(), m.to, m.index)); } }
        }
        out
    }
    fn judge(&mut self, answers: Vec<(Vec<u8>, u64, u64)>) -> Option<String> {
        for (ctx, to, index) in answers {
            let k = match self.reads.iter().position(|r| r.ctx == ctx) { Some(k) => k, None => return Some(format!("an answer for the unknown context {:?}", ctx)) };
            if self.reads[k].released { return Some(format!("read #{} answered twice", k)); }
            if self.reads[k].from != to { return Some(format!("read #{} asked by node {} was answered to node {}", k, self.reads[k].from, to)); }
            if index < self.reads[k].commit_at_issue { return Some(format!("read #{} answered with index {} below the commit index {} the leader had when the request arrived", k, index, self.reads[k].commit_at_issue)); }
            // confirmed by a quorum for this read or for one queued after it
            let ok = (k..self.reads.len()).any(|j| { let mut a = self.reads[j].acks.clone(); a.insert(1); self.quorum(&a) });
            if !ok { let mut a = self.reads[k].acks.clone(); a.insert(1);
                return Some(format!("UNCONFIRMED READ: read #{} (asked by node {}) was answered although only {:?} of the voters {:?} confirmed the leadership for it (no later read is confirmed by a quorum either)", k, to, a, self.voters)); }
            self.reads[k].released = true; STAT_ANSWERS.fetch_add(1, std::sync::atomic::Ordering::Relaxed);
        }
        None
    }
    fn issue(&mut self, from: u64) -> Option<String> {
        let ctx = format!("r{}", self.reads.len()).into_bytes();
        self.reads.push(Read { ctx: ctx.clone(), from, commit_at_issue: self.node.raft.raft_log.committed, acks: BTreeSet::new(), released: false });
        if from == 1 { self.node.read_index(ctx); } else { let mut m = msg(MessageType::MsgReadIndex, from, self.term); let mut e = Entry::default(); e.data = ctx.into(); m.entries = vec![e].into(); let _ = self.node.step(m); }
        let a = self.drain(); self.judge(a)
    }
    fn apply(&mut self, op: &Op) -> Option<String> {
        if self.node.raft.state != StateRole::Leader { return None; }
        match op {
            Op::ReadLocal => self.issue(1),
            Op::ReadFrom(j) => { let j = 2 + j % (self.n.max(2) - 1); if j > self.n { return None; } self.issue(j) }
            Op::HbResp(j, k) => {
                if self.reads.is_empty() || self.n < 2 { return None; }
                let j = 2 + j % (self.n - 1); let k = (*k % self.reads.len() as u64) as usize;
                // the acknowledgement counts only while the read is pending (the leader has no record of it otherwise)
                if !self.reads[k].released { self.reads[k].acks.insert(j); STAT_PENDING_ACKS.fetch_add(1, std::sync::atomic::Ordering::Relaxed); }
                let mut m = msg(MessageType::MsgHeartbeatResponse, j, self.term); m.context = self.reads[k].ctx.clone().into();
                let _ = self.node.step(m); let a = self.drain(); self.judge(a)
            }
            Op::HbRespPlain(j) => { if self.n < 2 { return None; } let j = 2 + j % (self.n - 1); let _ = self.node.step(msg(MessageType::MsgHeartbeatResponse, j, self.term)); let a = self.drain(); self.judge(a) }
            Op::Propose => { let _ = self.node.propose(vec![], vec![1]); let a = self.drain(); self.judge(a) }
            Op::Tick => { self.node.tick(); let a = self.drain(); self.judge(a) }
            Op::AckAll => { let a = self.ack_all(); self.judge(a) }
            // remove a voter other than the leader; the remaining followers acknowledge the entry, the leader commits and applies it
            Op::Remove(j) => { if self.voters.len() < 3 { return None; } let j = 2 + j % (self.n - 1); if !self.voters.contains(&j) { return None; }
                let mut cc = ConfChange::default(); cc.set_change_type(ConfChangeType::RemoveNode); cc.node_id = j;
                if self.node.propose_conf_change(vec![], cc).is_err() { return None; }
                let mut a = self.drain(); let a2 = self.ack_all(); a.extend(a2); self.judge(a) }
        }
    }
}

fn gen(rng: &mut Rng) -> (u64, Vec<Op>) {
    let n = 1 + rng.below(5); let k = 4 + rng.below(24); let mut ops = vec![];
    for _ in 0..k { ops.push(match rng.below(16) { 0..=2 => Op::ReadLocal, 3..=4 => Op::ReadFrom(rng.below(8)), 5..=11 => Op::HbResp(rng.below(8), rng.below(16)), 12 => Op::HbRespPlain(rng.below(8)), 13 => Op::Propose, 14 => Op::Tick, _ => if rng.below(2) == 0 { Op::Remove(rng.below(8)) } else { Op::AckAll } }); }
    (n, ops)
}

fn run(n: u64, ops: &[Op]) -> Option<String> {
    let mut w = World::new(n)?; STAT_WORLDS.fetch_add(1, std::sync::atomic::Ordering::Relaxed);
    for (k, op) in ops.iter().enumerate() { if let Some(x) = w.apply(op) { return Some(format!("{} voters, op #{} {:?}: {}", n, k, op, x)); } }
    None
}

fn main() {
    let args: Vec<String> = std::env::args().collect();
    let mut seed = 1u64; let mut cases = 2000u64; let mut replay: Option<String> = None; let mut i = 1;
    while i < args.len() { match args[i].as_str() { "--seed" => { seed = args[i + 1].parse().unwrap(); i += 1 } "--cases" => { cases = args[i + 1].parse().unwrap(); i += 1 } "--replay" => { replay = Some(args[i + 1].clone()); i += 1 } _ => {} } i += 1; }
    let one = |seed: u64, upto: u64, only_last: bool| -> Option<(u64, u64, Vec<Op>, String)> {
        let mut rng = Rng(seed.wrapping_mul(0x9E3779B97F4A7C15) | 1);
        for k in 0..=upto { let (n, ops) = gen(&mut rng); if only_last && k != upto { continue; } if let Some(w) = run(n, &ops) { return Some((k, n, ops, w)); } }
        None };
    if let Some(r) = replay {
        let nums: Vec<u64> = r.split(|c: char| !c.is_ascii_digit()).filter(|s| !s.is_empty()).map(|s| s.parse().unwrap()).collect();
        match one(nums[0], nums[1], true) { Some((k, n, ops, w)) => { println!("{{\"violation\":{:?},\"input\":{{\"seed\":{},\"case\":{},\"voters\":{},\"ops\":\"{:?}\"}}}}", w, nums[0], k, n, ops); std::process::exit(1) } None => { println!("{{\"ok\":true}}"); return } }
    }
    match one(seed, cases - 1, false) { Some((k, n, ops, w)) => { println!("{{\"violation\":{:?},\"input\":{{\"seed\":{},\"case\":{},\"voters\":{},\"ops\":\"{:?}\"}}}}", w, seed, k, n, ops); std::process::exit(1) } None => println!("{{\"ok\":true,\"cases\":{},\"leaders_driven\":{},\"reads_answered\":{},\"acks_on_pending_reads\":{}}}", cases, STAT_WORLDS.load(std::sync::atomic::Ordering::Relaxed), STAT_ANSWERS.load(std::sync::atomic::Ordering::Relaxed), STAT_PENDING_ACKS.load(std::sync::atomic::Ordering::Relaxed)) }
}
