// F2: RaftLog::applied_index_upper_bound computes persisted + max_apply_unpersisted_log_limit unchecked.
use raft::eraftpb::Entry;
use raft::storage::MemStorage;
use raft::{Config, RaftLog};
fn ent(i: u64, t: u64) -> Entry { let mut e = Entry::default(); e.index = i; e.term = t; e }
fn main() {
    let s = MemStorage::new();
    s.wl().append(&[ent(1, 1), ent(2, 1), ent(3, 1)]).unwrap();
    let mut cfg = Config::new(1);
    cfg.max_apply_unpersisted_log_limit = u64::MAX; // "no limit", by analogy with the other knobs
    let logger = slog::Logger::root(slog::Discard, slog::o!());
    let mut log = RaftLog::new(s, logger, &cfg);
    log.committed = 3;
    let r = std::panic::catch_unwind(std::panic::AssertUnwindSafe(|| log.has_next_entries_since(0)));
    match r {
        Ok(b) => { println!("has_next_entries_since(0) = {} (committed=3, persisted=3; expected true)", b); std::process::exit(if b { 0 } else { 1 }); }
        Err(_) => { println!("PANIC in has_next_entries_since (overflow in persisted + limit)"); std::process::exit(1); }
    }
}
