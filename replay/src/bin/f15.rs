// F15 (C20 / C09): a node that has applied its own removal and whose application calls RawNode::campaign() (MsgHup does not check
// `promotable`; only ticks and MsgTimeoutNow do) becomes a candidate although it is not a voter of its own configuration, is granted
// votes by the remaining voters, wins, and panics in become_leader (`get_mut(id).unwrap()` on an untracked id).
// (reproducer by a sub-agent, adapted)
use raft::eraftpb::*;
use raft::storage::MemStorage;
use raft::*;
use std::collections::VecDeque;

fn logger() -> slog::Logger {
    slog::Logger::root(slog::Discard, slog::o!())
}

fn node(id: u64, voters: Vec<u64>) -> RawNode<MemStorage> {
    let s = MemStorage::new_with_conf_state((voters, vec![]));
    let cfg = Config {
        id,
        election_tick: 10,
        heartbeat_tick: 1,
        max_size_per_msg: NO_LIMIT,
        max_inflight_msgs: 256,
        ..Default::default()
    };
    RawNode::new(&cfg, s, &logger()).unwrap()
}

/// Handles one full Ready round synchronously; applies conf changes; returns outgoing messages.
fn drain(n: &mut RawNode<MemStorage>) -> Vec<Message> {
    let mut out = vec![];
    while n.has_ready() {
        let mut rd = n.ready();
        out.extend(rd.take_messages());
        if !rd.snapshot().is_empty() {
            n.store().wl().apply_snapshot(rd.snapshot().clone()).unwrap();
        }
        n.store().wl().append(rd.entries()).unwrap();
        if let Some(hs) = rd.hs() {
            n.store().wl().set_hardstate(hs.clone());
        }
        out.extend(rd.take_persisted_messages());
        let mut committed = rd.take_committed_entries();
        let mut lrd = n.advance(rd);
        out.extend(lrd.take_messages());
        committed.extend(lrd.take_committed_entries());
        for e in committed {
            if e.get_entry_type() == EntryType::EntryConfChange {
                let mut cc = ConfChange::default();
                protobuf::Message::merge_from_bytes(&mut cc, e.get_data()).unwrap();
                let cs = n.apply_conf_change(&cc).unwrap();
                n.store().wl().set_conf_state(cs);
            }
        }
        n.advance_apply();
    }
    out
}

fn scenario() -> bool {
    let mut nodes: Vec<RawNode<MemStorage>> = (1..=3).map(|i| node(i, vec![1, 2, 3])).collect();
    let mut q: VecDeque<Message> = VecDeque::new();
    nodes[0].campaign().unwrap();
    let deliver_all = |nodes: &mut Vec<RawNode<MemStorage>>, q: &mut VecDeque<Message>| loop {
        for n in nodes.iter_mut() {
            q.extend(drain(n));
        }
        match q.pop_front() {
            Some(m) => {
                let to = m.to as usize - 1;
                let _ = nodes[to].step(m);
            }
            None => break,
        }
    };
    deliver_all(&mut nodes, &mut q);
    let mut cc = ConfChange::default();
    cc.set_change_type(ConfChangeType::RemoveNode);
    cc.node_id = 3;
    nodes[0].propose_conf_change(vec![], cc).unwrap();
    deliver_all(&mut nodes, &mut q);
    // one heartbeat round so that node 3 learns the commit index and applies its removal
    // (the leader no longer replicates to it, but the append that carried the entry did).
    println!(
        "node 3: promotable={} has own progress={}",
        nodes[2].raft.promotable(),
        nodes[2].raft.prs().get(3).is_some()
    );
    if nodes[2].raft.prs().get(3).is_none() {
        nodes[2].campaign().unwrap();
        deliver_all(&mut nodes, &mut q);
        println!("state of 3: {:?}", nodes[2].raft.state);
        return nodes[2].raft.state != StateRole::Follower;
    }
    false
}

fn main() {
    std::panic::set_hook(Box::new(|i| { println!("panic: {}", i); }));
    match std::panic::catch_unwind(scenario) {
        Err(_) => { println!("VIOLATION C20: a removed node that campaigns explicitly wins the election and panics in become_leader"); std::process::exit(1) }
        Ok(true) => { println!("VIOLATION C09: a node that is not a voter of its own configuration started an election"); std::process::exit(1) }
        Ok(false) => println!("ok: the removed node did not start an election"),
    }
}
