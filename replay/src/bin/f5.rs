// F5 (C06, asynchronous readies): a lone voter with a learner wins its election inside campaign(); Ready #1 carries the
// new HardState (term 1, vote 1).  The application hands Ready #1 to its IO pipeline (advance_append_async) but has not
// reported it persisted (no on_persist_ready).  Any later Ready of the leader must not release messages for immediate
// sending while that HardState is still being written: a crash now restarts the node at term 0.
use raft::prelude::*;
use raft::storage::MemStorage;
use slog::{o, Discard, Logger};
fn main() {
    let logger = Logger::root(Discard, o!());
    let store = MemStorage::new_with_conf_state((vec![1], vec![2]));
    let cfg = Config { id: 1, election_tick: 10, heartbeat_tick: 1, max_size_per_msg: 1 << 20, max_inflight_msgs: 16, ..Default::default() };
    let mut n = RawNode::new(&cfg, store.clone(), &logger).unwrap();
    n.campaign().unwrap();
    let mut rd1 = n.ready();
    assert_eq!(rd1.hs().map(|h| h.term), Some(1));
    assert!(rd1.messages().is_empty(), "Ready #1 itself holds its messages back (fix b89fca9)");
    store.wl().append(rd1.entries()).unwrap();       // readable through Storage, as advance_append_async requires
    let _ = rd1.take_persisted_messages();            // to be sent once #1 is durable
    let n1 = rd1.number();
    n.advance_append_async(rd1);                      // NOT yet persisted: no on_persist_ready(n1)
    n.tick();                                         // heartbeat timeout
    let rd2 = n.ready();
    let early: Vec<_> = rd2.messages().iter().map(|m| (m.get_msg_type(), m.to, m.term)).collect();
    println!("Ready #{} not reported persisted; Ready #{} releases for immediate sending: {:?}", n1, rd2.number(), early);
    if !early.is_empty() {
        println!("VIOLATION C06: messages sent as leader of term 1 are released before the HardState (term 1, vote 1) of Ready #{} has been reported persisted", n1);
        std::process::exit(1);
    }
    println!("ok: held back as persisted_messages: {}", rd2.persisted_messages().len());
}
