// F9 (C17): "the leader abandons the transfer ... when the target leaves the voters".  Raft::post_conf_change returns early
// when the leader itself is no longer a voter, BEFORE the block that aborts a transfer whose target left the voters.  A
// membership change that removes the leader and the transfer target together leaves lead_transferee = Some(target)
// although the target is gone (no Progress, not a voter).
use raft::eraftpb::*;
use raft::storage::MemStorage;
use raft::{Config, Raft, StateRole};
use slog::{o, Discard, Logger};
fn main() {
    let l = Logger::root(Discard, o!());
    let store = MemStorage::new_with_conf_state((vec![1, 2, 3], vec![]));
    let cfg = Config { id: 1, election_tick: 10, heartbeat_tick: 1, max_size_per_msg: 1 << 20, max_inflight_msgs: 16, ..Default::default() };
    let mut r = Raft::new(&cfg, store, &l).unwrap();
    r.become_candidate(); r.become_leader();
    // node 3 has not caught up: the transfer stays pending
    let mut m = Message::default(); m.set_msg_type(MessageType::MsgTransferLeader); m.from = 3; m.to = 1;
    r.step(m).unwrap();
    assert_eq!(r.lead_transferee, Some(3));
    // explicit joint change removing the leader (1) and the target (3), then leave joint: voters {2}
    let mut cc = ConfChangeV2::default();
    let mut steps = vec![];
    for id in [1u64, 3] { let mut s = ConfChangeSingle::default(); s.set_change_type(ConfChangeType::RemoveNode); s.node_id = id; steps.push(s); }
    cc.set_changes(steps.into()); cc.set_transition(ConfChangeTransition::Explicit);
    r.apply_conf_change(&cc).unwrap();
    r.apply_conf_change(&ConfChangeV2::default()).unwrap();
    println!("state {:?}, voters {:?}, progress of 3: {}, lead_transferee {:?}", r.state, r.prs().conf().to_conf_state().voters, r.prs().get(3).is_some(), r.lead_transferee);
    assert_eq!(r.state, StateRole::Leader);
    if r.lead_transferee.is_some() { println!("VIOLATION C17: the transfer target left the voters but the transfer is still pending"); std::process::exit(1); }
    println!("ok: transfer abandoned");
}
