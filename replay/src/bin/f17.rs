// F17 (C19): `Storage::term`: "The term of the entry before first_index is retained for matching purpose even though the
// rest of that entry may not be available."  MemStorage kept that term only when a compaction emptied the log; after a
// partial compaction term(first_index() - 1) answered Err(Compacted).  (scenario by a sub-agent)
use raft::eraftpb::Entry;
use raft::storage::{MemStorage, Storage};
fn ent(index: u64, term: u64) -> Entry { let mut e = Entry::default(); e.index = index; e.term = term; e }
fn main() {
    let s = MemStorage::new();
    s.wl().append(&(1..=5).map(|i| ent(i, i)).collect::<Vec<_>>()).unwrap();
    s.wl().commit_to(5).unwrap();
    s.wl().compact(3).unwrap();
    let f = s.first_index().unwrap();
    let t = s.term(f - 1);
    println!("first_index = {}, term({}) = {:?}", f, f - 1, t);
    if t.is_err() { println!("VIOLATION C19: the term of the entry before first_index is not retained after a partial compaction"); std::process::exit(1); }
    assert_eq!(t.unwrap(), 2);
    println!("ok");
}
