// F16 (C16): "a node that fails to gather a pre-vote quorum does not raise its own term unless a peer tells it of a higher
// one".  A pre-vote grant echoes the term that was asked for (requester's term + 1).  A grant of an EARLIER round that is
// delayed until the requester has advanced one term and pre-campaigns again has m.term == self.term, passes the only
// staleness filter (m.term < self.term), and is counted by poll(): the node becomes a candidate of the next term although
// nobody granted anything in this round.  (scenario by a sub-agent)
use raft::eraftpb::*;
use raft::storage::MemStorage;
use raft::{Config, Raft, StateRole};
use slog::{o, Discard, Logger};
fn msg(from: u64, to: u64, ty: MessageType, term: u64) -> Message { let mut m = Message::default(); m.set_msg_type(ty); m.from = from; m.to = to; m.term = term; m }
fn main() {
    let l = Logger::root(Discard, o!());
    let s = MemStorage::new_with_conf_state((vec![1, 2, 3], vec![]));
    let cfg = Config { id: 3, election_tick: 10, heartbeat_tick: 1, pre_vote: true, check_quorum: true, ..Default::default() };
    let mut r = Raft::new(&cfg, s, &l).unwrap();
    // round 1, term 0: pre-campaign for term 1; node 2's grant (term 1) is delayed in the network
    r.step(msg(3, 3, MessageType::MsgHup, 0)).unwrap();
    assert_eq!((r.state, r.term), (StateRole::PreCandidate, 0));
    r.msgs.clear();
    // node 1 is elected at term 1 meanwhile; node 3 follows it
    r.step(msg(1, 3, MessageType::MsgHeartbeat, 1)).unwrap();
    assert_eq!((r.state, r.term), (StateRole::Follower, 1));
    // node 3 is partitioned, times out and pre-campaigns again: term 1, asking for term 2; nobody hears it
    for _ in 0..40 { r.tick(); if r.state == StateRole::PreCandidate { break; } }
    assert_eq!((r.state, r.term), (StateRole::PreCandidate, 1));
    r.msgs.clear();
    // the OLD grant (asked at term 0 for term 1) arrives now
    let old_grant = msg(2, 3, MessageType::MsgRequestPreVoteResponse, 1);
    r.step(old_grant).unwrap();
    println!("after the stale grant: state {:?}, term {}, vote {}", r.state, r.term, r.vote);
    if r.term != 1 || r.state != StateRole::PreCandidate {
        println!("VIOLATION C16: a pre-vote grant of an earlier round was counted: the node raised its term to {} without a pre-vote quorum in this round", r.term);
        std::process::exit(1);
    }
    println!("ok: the stale grant was ignored");
}
