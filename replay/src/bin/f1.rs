// F1: a single-voter group with a learner wins its election inside campaign(); the same Ready carries the new
// (term, vote) to persist AND a MsgAppend to the learner in messages() (sendable before persistence).
use raft::eraftpb::{ConfState, MessageType};
use raft::storage::MemStorage;
use raft::{Config, RawNode};
fn main() {
    let mut cs = ConfState::default();
    cs.voters = vec![1];
    cs.learners = vec![2];
    let store = MemStorage::new_with_conf_state(cs);
    let cfg = Config { id: 1, election_tick: 10, heartbeat_tick: 1, ..Default::default() };
    let logger = slog::Logger::root(slog::Discard, slog::o!());
    let mut node = RawNode::new(&cfg, store.clone(), &logger).unwrap();
    node.campaign().unwrap();
    let rd = node.ready();
    let hs = rd.hs().cloned();
    let imm: Vec<_> = rd.messages().iter().map(|m| (m.get_msg_type(), m.to, m.term, m.entries.len())).collect();
    let per: Vec<_> = rd.persisted_messages().iter().map(|m| (m.get_msg_type(), m.to, m.term)).collect();
    println!("hs to persist = {:?}; must_sync = {}", hs.map(|h| (h.term, h.vote, h.commit)), rd.must_sync());
    println!("durable hard state = {:?}", { let h = store.rl().hard_state().clone(); (h.term, h.vote) });
    println!("messages() (may be sent before persisting) = {:?}", imm);
    println!("persisted_messages() = {:?}", per);
    let bad = imm.iter().any(|m| m.0 == MessageType::MsgAppend) && rd.hs().map_or(false, |h| h.term != 0);
    if bad { println!("VIOLATED: MsgAppend of term 1 released while term/vote are not yet persisted"); std::process::exit(1); }
    println!("ok: nothing sent as leader is released ahead of its hard state");
}
