// F22 (C20): the only voter of a group (the previous leader removed itself and keeps leading its term) asks for a snapshot
// (request_snapshot) and receives one at exactly its own last index; restore() installs it because it was requested.  The
// Ready carrying it is written and handed back with advance_append_async; on_persist_ready has not been called yet.  The
// old leader goes away, the election timer fires; hup()'s lone-voter guard (persisted < last_index) does not see the snapshot
// (persisted == last_index == snapshot index), the node is leader at once, and the next RawNode::ready() aborts on
// assert_eq!(record.snapshot, None).  Only ticks happen between the async advance and the abort.  (scenario found
// independently by five sub-agents)
use raft::eraftpb::{ConfState, Entry, HardState, Message, MessageType, Snapshot};
use raft::storage::MemStorage;
use raft::{Config, RawNode, StateRole};

fn handle_ready_sync(rn: &mut RawNode<MemStorage>, store: &MemStorage) -> Vec<Message> {
    let mut out = vec![];
    if !rn.has_ready() {
        return out;
    }
    let mut rd = rn.ready();
    out.extend(rd.take_messages());
    if !rd.snapshot().is_empty() {
        store.wl().apply_snapshot(rd.snapshot().clone()).unwrap();
    }
    store.wl().append(rd.entries()).unwrap();
    if let Some(hs) = rd.hs() {
        store.wl().set_hardstate(hs.clone());
    }
    out.extend(rd.take_persisted_messages());
    let mut light = rn.advance(rd);
    if let Some(c) = light.commit_index() {
        store.wl().mut_hard_state().commit = c;
    }
    out.extend(light.take_messages());
    rn.advance_apply();
    out
}

fn scenario() {
    let logger = slog::Logger::root(slog::Discard, slog::o!());

    // Node 1 is the only voter left (2 and 3 were removed; 3 was leader at that time and, as this
    // library does, keeps leading until it is stopped). Log 1..=5 of term 2, all applied.
    let store = MemStorage::new_with_conf_state((vec![1], vec![]));
    let ents: Vec<Entry> = (1..=5)
        .map(|i| {
            let mut e = Entry::default();
            e.index = i;
            e.term = 2;
            e
        })
        .collect();
    store.wl().append(&ents).unwrap();
    let mut hs = HardState::default();
    hs.term = 2;
    hs.commit = 5;
    store.wl().set_hardstate(hs);
    let cfg = Config {
        id: 1,
        election_tick: 10,
        heartbeat_tick: 1,
        applied: 5,
        ..Default::default()
    };
    let mut rn = RawNode::new(&cfg, store.clone(), &logger).unwrap();

    // A heartbeat of leader 3 (term 2).
    let mut hb = Message::default();
    hb.set_msg_type(MessageType::MsgHeartbeat);
    hb.from = 3;
    hb.to = 1;
    hb.term = 2;
    hb.commit = 5;
    rn.step(hb).unwrap();
    handle_ready_sync(&mut rn, &store);
    assert_eq!(rn.raft.leader_id, 3);

    // The application asks the leader for a snapshot (e.g. its state machine is damaged).
    rn.request_snapshot().unwrap();
    let msgs = handle_ready_sync(&mut rn, &store);
    assert_eq!(msgs.len(), 1);
    assert_eq!(msgs[0].get_msg_type(), MessageType::MsgAppendResponse);
    assert_eq!(msgs[0].request_snapshot, 5);

    // The leader answers with a snapshot of its applied state, index 5.
    let mut snap = Snapshot::default();
    snap.set_data(b"state".to_vec().into());
    snap.mut_metadata().index = 5;
    snap.mut_metadata().term = 2;
    let mut cs = ConfState::default();
    cs.set_voters(vec![1]);
    snap.mut_metadata().set_conf_state(cs);
    let mut m = Message::default();
    m.set_msg_type(MessageType::MsgSnapshot);
    m.from = 3;
    m.to = 1;
    m.term = 2;
    m.set_snapshot(snap);
    rn.step(m).unwrap();

    // The Ready with the snapshot is written asynchronously: the snapshot is applied to the
    // storage (readable), the Ready is handed back, the fsync is still in flight.
    let mut rd = rn.ready();
    assert!(!rd.snapshot().is_empty());
    store.wl().apply_snapshot(rd.snapshot().clone()).unwrap();
    if let Some(hs) = rd.hs() {
        store.wl().set_hardstate(hs.clone());
    }
    let snap_ready = rd.number();
    let held_back = rd.take_persisted_messages(); // the MsgAppendResponse acknowledging the snapshot
    rn.advance_append_async(rd);

    // Leader 3 is stopped; the election timer of node 1 fires. Its own vote is a quorum.
    for _ in 0..40 {
        rn.tick();
        if rn.raft.state == StateRole::Leader {
            break;
        }
    }

    // The application looks for more work, as after every tick.
    // unchanged tree: node 1 is leader now and `ready()` panics on
    //   assertion `left == right` failed  left: Some((5, 2))  right: None
    let mut later = vec![];
    if rn.has_ready() {
        let mut rd = rn.ready();
        later.extend(rd.take_messages());
        store.wl().append(rd.entries()).unwrap();
        if let Some(hs) = rd.hs() {
            store.wl().set_hardstate(hs.clone());
        }
        later.extend(rd.take_persisted_messages());
        rn.advance_append_async(rd);
    }

    // The fsync completes.
    rn.on_persist_ready(snap_ready);
    drop(held_back);
    drop(later);

    // From here on everything is written synchronously; the sole voter must end up as leader.
    for _ in 0..60 {
        rn.tick();
        handle_ready_sync(&mut rn, &store);
    }
    assert_eq!(rn.raft.state, StateRole::Leader);
}

fn main() {
    std::panic::set_hook(Box::new(|i| { println!("panic: {}", i); }));
    match std::panic::catch_unwind(scenario) {
        Err(_) => { println!("VIOLATION C20: RawNode::ready aborted for a sole voter elected while a snapshot Ready is in flight"); std::process::exit(1) }
        Ok(()) => println!("ok: the sole voter ends up as leader"),
    }
}
