// Replay monitor for C18: the REAL raft::Inflights vs a bounded-FIFO model under random sequences of
// add / free_to / free_first_one / reset / set_cap / maybe_free_buffer.  Witness finder + bounded replay; never proof.
use raft::Inflights;
use std::collections::VecDeque;
struct Rng(u64);
impl Rng { fn next(&mut self) -> u64 { self.0 ^= self.0 << 13; self.0 ^= self.0 >> 7; self.0 ^= self.0 << 17; self.0 } fn below(&mut self, n: u64) -> u64 { if n == 0 { 0 } else { self.next() % n } } }
#[derive(Clone, Debug)]
enum Op { Add(u64), FreeTo(u64), FreeFirst, Reset, SetCap(usize), MaybeFree }
struct Model { items: VecDeque<u64>, cap: usize, pending: Option<usize> }
impl Model {
    fn full(&self) -> bool { self.items.len() == self.cap || self.pending.map_or(false, |p| self.items.len() >= p) }
    fn drained(&mut self) { if self.items.is_empty() { if let Some(p) = self.pending.take() { self.cap = p; } } }
}
fn run(cap0: usize, ops: &[Op]) -> Option<String> {
    let mut real = Inflights::new(cap0);
    let mut m = Model { items: VecDeque::new(), cap: cap0, pending: None };
    for (k, op) in ops.iter().enumerate() {
        match op {
            Op::Add(x) => { if m.full() { continue; } let r = std::panic::catch_unwind(std::panic::AssertUnwindSafe(|| real.add(*x))); if r.is_err() { return Some(format!("op #{} {:?}: add panicked although the model window is not full", k, op)); } m.items.push_back(*x); }
            Op::FreeTo(t) => { if std::panic::catch_unwind(std::panic::AssertUnwindSafe(|| real.free_to(*t))).is_err() { return Some(format!("op #{} {:?} panicked", k, op)); } let had = !m.items.is_empty(); while m.items.front().map_or(false, |f| *f <= *t) { m.items.pop_front(); } if had { m.drained(); } }
            Op::FreeFirst => { if std::panic::catch_unwind(std::panic::AssertUnwindSafe(|| real.free_first_one())).is_err() { return Some(format!("op #{} {:?} panicked", k, op)); } if let Some(f) = m.items.front().cloned() { while m.items.front().map_or(false, |g| *g <= f) { m.items.pop_front(); } m.drained(); } }
            Op::Reset => { if std::panic::catch_unwind(std::panic::AssertUnwindSafe(|| real.reset())).is_err() { return Some(format!("op #{} {:?} panicked", k, op)); } m.items.clear(); if let Some(p) = m.pending.take() { m.cap = p; } }
            Op::SetCap(c) => { if std::panic::catch_unwind(std::panic::AssertUnwindSafe(|| real.set_cap(*c))).is_err() { return Some(format!("op #{} {:?} panicked although the model accepts the capacity change", k, op)); } if *c >= m.cap || m.items.is_empty() { m.cap = *c; m.pending = None; } else { m.pending = Some(*c); } }
            Op::MaybeFree => { if std::panic::catch_unwind(std::panic::AssertUnwindSafe(|| real.maybe_free_buffer())).is_err() { return Some(format!("op #{} {:?} panicked", k, op)); } }
        }
        if real.count() != m.items.len() { return Some(format!("op #{} {:?}: count {} but the model holds {}", k, op, real.count(), m.items.len())); }
        if real.full() != m.full() { return Some(format!("op #{} {:?}: full() = {} but the model says {}", k, op, real.full(), m.full())); }
    }
    // drain and compare contents (order!) through the public API: free_first_one one by one with strictly increasing probes
    let mut probe = real.clone();
    let mut seen = vec![];
    // read contents by freeing up to each candidate value in increasing order
    let mut vals: Vec<u64> = m.items.iter().cloned().collect(); vals.sort(); vals.dedup();
    let mut mm: VecDeque<u64> = m.items.clone();
    for v in vals { if std::panic::catch_unwind(std::panic::AssertUnwindSafe(|| probe.free_to(v))).is_err() { return Some(format!("reading the window back: free_to({}) panicked", v)); } while mm.front().map_or(false, |f| *f <= v) { seen.push(mm.pop_front().unwrap()); } if probe.count() != mm.len() { return Some(format!("after the sequence, free_to({}) leaves {} items but the model leaves {} (items lost, duplicated or reordered)", v, probe.count(), mm.len())); } }
    None
}
fn gen(rng: &mut Rng) -> (usize, Vec<Op>) {
    let cap0 = rng.below(5) as usize;
    let n = 1 + rng.below(14);
    let mut next = 1u64; let mut ops = vec![];
    for _ in 0..n {
        ops.push(match rng.below(10) { 0..=3 => { next += rng.below(3); Op::Add(next) } 4 | 5 => Op::FreeTo(rng.below(next + 2)), 6 => Op::FreeFirst, 7 => Op::Reset, 8 => Op::SetCap(rng.below(6) as usize), _ => Op::MaybeFree });
    }
    (cap0, ops)
}
fn main() {
    let args: Vec<String> = std::env::args().collect();
    let mut seed = 1u64; let mut cases = 50000u64; let mut replay: Option<String> = None; let mut i = 1;
    while i < args.len() { match args[i].as_str() { "--seed" => { seed = args[i + 1].parse().unwrap(); i += 1 } "--cases" => { cases = args[i + 1].parse().unwrap(); i += 1 } "--replay" => { replay = Some(args[i + 1].clone()); i += 1 } _ => {} } i += 1; }
    std::panic::set_hook(Box::new(|_| {}));
    if let Some(r) = replay {
        // input format: {"seed":S,"case":K}: regenerate deterministically
        let nums: Vec<u64> = r.split(|c: char| !c.is_ascii_digit()).filter(|s| !s.is_empty()).map(|s| s.parse().unwrap()).collect();
        let mut rng = Rng(nums[0].wrapping_mul(0x9E3779B97F4A7C15) | 1); let mut c = (0, vec![]);
        for _ in 0..=nums[1] { c = gen(&mut rng); }
        match run(c.0, &c.1) { Some(w) => { println!("{{\"violation\":{:?},\"input\":{{\"seed\":{},\"case\":{},\"cap0\":{},\"ops\":\"{:?}\"}}}}", w, nums[0], nums[1], c.0, c.1); std::process::exit(1) } None => { println!("{{\"ok\":true}}"); return } }
    }
    let mut rng = Rng(seed.wrapping_mul(0x9E3779B97F4A7C15) | 1);
    for k in 0..cases {
        let (cap0, ops) = gen(&mut rng);
        if let Some(w) = run(cap0, &ops) { println!("{{\"violation\":{:?},\"input\":{{\"seed\":{},\"case\":{},\"cap0\":{},\"ops\":\"{:?}\"}}}}", w, seed, k, cap0, ops); std::process::exit(1); }
    }
    println!("{{\"ok\":true,\"cases\":{}}}", cases);
}
