// F24 (C20): restart window + compaction + a second crash.  A follower persists entries 1..=3; a heartbeat commits them (that
// Ready's hard state need not be synced) and the application applies them; crash before the lazy hard-state write lands: stored
// commit 0, restart with Config::applied = 3 (tolerated by Raft::new).  The application compacts up to its applied index; the node
// grants a vote, the Ready carries hs{term 2, vote 3, commit 0} (raft's commit index is still 0), the application persists it.
// Next restart: RaftLog::new starts with committed = first_index - 1 = 2 and Raft::load_state aborts with
// fatal!("hs.commit 0 is out of range [2, 3]").  (scenario by a sub-agent)
use raft::eraftpb::{Entry, Message, MessageType};
use raft::storage::MemStorage;
use raft::{Config, RawNode};

fn entry(index: u64, term: u64) -> Entry {
    let mut e = Entry::default();
    e.index = index;
    e.term = term;
    e.data = vec![index as u8; 4].into();
    e
}

fn msg(t: MessageType, from: u64, term: u64) -> Message {
    let mut m = Message::default();
    m.set_msg_type(t);
    m.from = from;
    m.to = 2;
    m.term = term;
    m
}

fn scenario() {
    let logger = slog::Logger::root(slog::Discard, slog::o!());
    let store = MemStorage::new_with_conf_state((vec![1, 2, 3], vec![]));
    let mut cfg = Config {
        id: 2,
        election_tick: 10,
        heartbeat_tick: 1,
        ..Default::default()
    };
    let mut rn = RawNode::new(&cfg, store.clone(), &logger).unwrap();

    // 1. entries 1..=3 arrive and are persisted together with the hard state of term 1.
    let mut m = msg(MessageType::MsgAppend, 1, 1);
    m.set_entries(vec![entry(1, 1), entry(2, 1), entry(3, 1)].into());
    rn.step(m).unwrap();
    let rd = rn.ready();
    assert!(rd.must_sync());
    store.wl().append(rd.entries()).unwrap();
    store.wl().set_hardstate(rd.hs().unwrap().clone());
    rn.advance(rd);

    // 2. a heartbeat commits them; the hard state of this Ready need not be synced.
    let mut m = msg(MessageType::MsgHeartbeat, 1, 1);
    m.commit = 3;
    rn.step(m).unwrap();
    let rd = rn.ready();
    assert!(!rd.must_sync());
    assert_eq!(rd.hs().unwrap().commit, 3);
    assert_eq!(rd.committed_entries().len(), 3); // applied by the application
    rn.advance(rd);

    // 3. crash: the asynchronous write of hs{commit: 3} is lost; applied = 3 is not.
    drop(rn);
    assert_eq!(store.rl().hard_state().commit, 0);
    cfg.applied = 3;
    let mut rn = RawNode::new(&cfg, store.clone(), &logger).unwrap();
    assert_eq!(rn.raft.raft_log.applied, 3);
    assert_eq!(rn.raft.raft_log.committed, 0);

    // 4. compact up to the applied index (entries 1 and 2 go away).
    store.wl().compact(3).unwrap();

    // 5. grant a vote to node 3 at term 2 and persist the hard state raft hands out.
    let mut m = msg(MessageType::MsgRequestVote, 3, 2);
    m.index = 3;
    m.log_term = 1;
    rn.step(m).unwrap();
    let rd = rn.ready();
    let hs = rd.hs().unwrap().clone();
    assert_eq!((hs.term, hs.vote, hs.commit), (2, 3, 0));
    store.wl().set_hardstate(hs);
    rn.advance(rd);

    // 6. restart: must not abort.
    drop(rn);
    let rn = RawNode::new(&cfg, store, &logger).expect("restart");
    assert_eq!(rn.raft.term, 2);
}

fn main() {
    std::panic::set_hook(Box::new(|i| { println!("panic: {}", i); }));
    match std::panic::catch_unwind(scenario) {
        Err(_) => { println!("VIOLATION C20: a restart from contract-abiding stable storage aborted in Raft::new"); std::process::exit(1) }
        Ok(()) => println!("ok: the node restarts at term 2"),
    }
}
