// Replay monitor for C11 (quorum arithmetic): runs the REAL ProgressTracker / JointConfig of /repo on small voter
// sets with enumerated / pseudo-random acknowledged indexes, votes and commit groups, and compares with the
// count-based definitions of the property statement.  Used as a witness finder (a concrete failing input for a
// failed or undecided Verus obligation) and as the bounded replay of the thorough tier -- never counted as proof.
// usage: mon_c11 [--seed N] [--cases K] [--replay '<json>']   exit 1 + one JSON line `{"violation":..}` on a mismatch.
use raft::eraftpb::{ConfChangeSingle, ConfChangeType};
use raft::{Changer, ProgressTracker};
use std::collections::{BTreeMap, BTreeSet};

struct Rng(u64);
impl Rng {
    fn next(&mut self) -> u64 { self.0 ^= self.0 << 13; self.0 ^= self.0 >> 7; self.0 ^= self.0 << 17; self.0 }
    fn below(&mut self, n: u64) -> u64 { if n == 0 { 0 } else { self.next() % n } }
}

#[derive(Clone, Debug)]
struct Case {
    incoming: Vec<u64>,
    outgoing: Vec<u64>,
    acks: BTreeMap<u64, (u64, u64)>, // id -> (matched, group)
    votes: BTreeMap<u64, bool>,
    group_commit: bool,
}

fn cc(t: ConfChangeType, id: u64) -> ConfChangeSingle { let mut c = ConfChangeSingle::default(); c.set_change_type(t); c.node_id = id; c }

fn build(case: &Case) -> Option<ProgressTracker> {
    // start from the OUTGOING set (if joint) or the incoming set, then enter joint towards `incoming`
    let mut prs = ProgressTracker::new(16);
    let base: &Vec<u64> = if case.outgoing.is_empty() { &case.incoming } else { &case.outgoing };
    for id in base {
        let (cfg, changes) = Changer::new(&prs).simple(&[cc(ConfChangeType::AddNode, *id)]).ok()?;
        prs.apply_conf(cfg, changes, 1);
    }
    if !case.outgoing.is_empty() {
        let mut ccs = vec![];
        for id in &case.outgoing { if !case.incoming.contains(id) { ccs.push(cc(ConfChangeType::RemoveNode, *id)); } }
        for id in &case.incoming { if !case.outgoing.contains(id) { ccs.push(cc(ConfChangeType::AddNode, *id)); } }
        let (cfg, changes) = Changer::new(&prs).enter_joint(false, &ccs).ok()?;
        prs.apply_conf(cfg, changes, 1);
    }
    for (id, (m, g)) in &case.acks {
        if let Some(pr) = prs.get_mut(*id) { pr.matched = *m; pr.commit_group_id = *g; }
    }
    prs.enable_group_commit(case.group_commit);
    for (id, v) in &case.votes { prs.record_vote(*id, *v); }
    Some(prs)
}

fn ack(case: &Case, id: u64) -> (u64, u64) { *case.acks.get(&id).unwrap_or(&(0, 0)) }

// largest index acknowledged by a majority of `set` (u64::MAX for the empty set)
fn qidx(case: &Case, set: &[u64]) -> u64 {
    if set.is_empty() { return u64::MAX; }
    let mut best = 0;
    let mut cands: Vec<u64> = set.iter().map(|id| ack(case, *id).0).collect();
    cands.push(0);
    for c in cands {
        let cnt = set.iter().filter(|id| ack(case, **id).0 >= c).count();
        if 2 * cnt > set.len() && c > best { best = c; }
    }
    best
}

// largest index <= q replicated into two different groups (None if there is none)
fn gidx(case: &Case, set: &[u64], q: u64) -> Option<u64> {
    let mut best = None;
    for a in set { for b in set {
        let (ia, ga) = ack(case, *a); let (ib, gb) = ack(case, *b);
        if ga != gb { let i = ia.min(ib).min(q); if best.map_or(true, |x| i > x) { best = Some(i); } }
    } }
    best
}

#[derive(PartialEq, Debug, Clone, Copy)]
enum VR { Won, Lost, Pending }
fn vote_result(case: &Case, set: &[u64]) -> VR {
    if set.is_empty() { return VR::Won; }
    let yes = set.iter().filter(|id| case.votes.get(id) == Some(&true)).count();
    let missing = set.iter().filter(|id| case.votes.get(id).is_none()).count();
    if 2 * yes > set.len() { VR::Won } else if 2 * (yes + missing) > set.len() { VR::Pending } else { VR::Lost }
}

fn check(case: &Case) -> Option<String> {
    let mut prs = build(case)?;
    let (got, _) = prs.maximal_committed_index();
    let qi = qidx(case, &case.incoming);
    let qo = qidx(case, &case.outgoing);
    let want = qi.min(qo);
    if !case.group_commit {
        if got != want { return Some(format!("commit index {} but the largest index acknowledged by a majority of each voter set is {}", got, want)); }
    } else {
        if got > want { return Some(format!("group-commit index {} exceeds the plain quorum index {}", got, want)); }
        // single (non-joint) set with every voter grouped and >= 2 groups: exact value
        if case.outgoing.is_empty() && case.incoming.iter().all(|id| ack(case, *id).1 != 0) {
            let groups: BTreeSet<u64> = case.incoming.iter().map(|id| ack(case, *id).1).collect();
            if groups.len() >= 2 {
                let g = gidx(case, &case.incoming, qi).unwrap();
                if got != g { return Some(format!("group-commit index {} but the largest index <= quorum index {} replicated into two groups is {}", got, qi, g)); }
            }
        }
    }
    // the same arithmetic called directly on each half with a lookup that has NO entry for the voters without an acknowledgement
    // ("missing voter": it counts in the size of the set, with acknowledged index 0) -- the tracker above always holds a Progress per voter
    for set in [&case.incoming, &case.outgoing] {
        type H = std::hash::BuildHasherDefault<fxhash::FxHasher>;
        let vs: std::collections::HashSet<u64, H> = set.iter().cloned().collect();
        let mut l: std::collections::HashMap<u64, raft::Progress, H> = Default::default();
        for id in set.iter() { if let Some((m, g)) = case.acks.get(id) { let mut pr = raft::Progress::new(*m + 1, 16); pr.matched = *m; pr.commit_group_id = *g; l.insert(*id, pr); } }
        let want_h = qidx(case, set);
        let got_h = match std::panic::catch_unwind(std::panic::AssertUnwindSafe(|| raft::MajorityConfig::new(vs).committed_index(case.group_commit, &l).0)) { Ok(v) => v, Err(_) => return Some(format!("MajorityConfig::committed_index panicked on voters {:?} with unknown voters", set)) };
        if !case.group_commit { if got_h != want_h { return Some(format!("MajorityConfig::committed_index = {} on voters {:?} (voters without an entry in the lookup count as 0) but the largest index acknowledged by a majority is {}", got_h, set, want_h)); } }
        else if got_h > want_h { return Some(format!("MajorityConfig::committed_index (group commit) = {} on voters {:?} exceeds the plain quorum index {}", got_h, set, want_h)); }
    }
    // has_quorum(S): S holds a majority of each half (S = the ids that voted yes)
    {
        let yes: std::collections::HashSet<u64> = case.votes.iter().filter(|(k, v)| **v && (case.incoming.contains(k) || case.outgoing.contains(k))).map(|(k, _)| *k).collect();
        let mut hs: std::collections::HashSet<u64, std::hash::BuildHasherDefault<fxhash::FxHasher>> = Default::default(); for id in &yes { hs.insert(*id); }
        let got_q = prs.has_quorum(&hs);
        let maj = |set: &[u64]| set.is_empty() || 2 * set.iter().filter(|id| yes.contains(id)).count() > set.len();
        let want_q = maj(&case.incoming) && maj(&case.outgoing);
        if got_q != want_q { return Some(format!("has_quorum({:?}) = {} but the set holds a majority of each half: {} (incoming {:?}, outgoing {:?})", yes, got_q, want_q, case.incoming, case.outgoing)); }
    }
    let (_, _, res) = prs.tally_votes();
    let res = format!("{:?}", res);
    let (i, o) = (vote_result(case, &case.incoming), vote_result(case, &case.outgoing));
    let want_v = if i == VR::Won && o == VR::Won { VR::Won } else if i == VR::Lost || o == VR::Lost { VR::Lost } else { VR::Pending };
    if res != format!("{:?}", want_v) { return Some(format!("vote tally {} but the model says {:?} (incoming {:?}, outgoing {:?})", res, want_v, i, o)); }
    None
}

fn to_json(c: &Case) -> String {
    format!("{{\"incoming\":{:?},\"outgoing\":{:?},\"acks\":{:?},\"votes\":{:?},\"group_commit\":{}}}", c.incoming, c.outgoing,
            c.acks.iter().map(|(k, v)| (*k, v.0, v.1)).collect::<Vec<_>>(), c.votes.iter().map(|(k, v)| (*k, *v)).collect::<Vec<_>>(), c.group_commit)
}

fn parse_case(s: &str) -> Case {
    // tiny parser for the format printed by to_json
    fn nums(s: &str) -> Vec<i64> { let mut v = vec![]; let mut cur = String::new(); for ch in s.chars() { if ch.is_ascii_digit() { cur.push(ch) } else { if !cur.is_empty() { v.push(cur.parse().unwrap()); cur.clear(); } } } if !cur.is_empty() { v.push(cur.parse().unwrap()); } v }
    let field = |name: &str| -> String { let k = format!("\"{}\":", name); let a = s.find(&k).unwrap() + k.len(); let rest = &s[a..]; let mut depth = 0; let mut end = rest.len(); for (i, ch) in rest.char_indices() { if ch == '[' { depth += 1 } if ch == ']' { depth -= 1; if depth == 0 { end = i + 1; break; } } if depth == 0 && (ch == ',' || ch == '}') { end = i; break; } } rest[..end].to_string() };
    let incoming = nums(&field("incoming")).into_iter().map(|x| x as u64).collect();
    let outgoing = nums(&field("outgoing")).into_iter().map(|x| x as u64).collect();
    let a = nums(&field("acks")); let mut acks = BTreeMap::new(); for ch in a.chunks(3) { acks.insert(ch[0] as u64, (ch[1] as u64, ch[2] as u64)); }
    let vf = field("votes"); let mut votes = BTreeMap::new();
    for part in vf.split('(').skip(1) { let id: u64 = nums(part)[0] as u64; votes.insert(id, part.contains("true")); }
    Case { incoming, outgoing, acks, votes, group_commit: field("group_commit").contains("true") }
}

fn main() {
    let args: Vec<String> = std::env::args().collect();
    let mut seed = 1u64; let mut cases = 20000u64; let mut replay: Option<String> = None;
    let mut i = 1;
    while i < args.len() { match args[i].as_str() { "--seed" => { seed = args[i + 1].parse().unwrap(); i += 1 } "--cases" => { cases = args[i + 1].parse().unwrap(); i += 1 } "--replay" => { replay = Some(args[i + 1].clone()); i += 1 } _ => {} } i += 1; }
    if let Some(r) = replay {
        let c = parse_case(&r);
        match check(&c) { Some(w) => { println!("{{\"violation\":{:?},\"input\":{}}}", w, to_json(&c)); std::process::exit(1) } None => { println!("{{\"ok\":true,\"input\":{}}}", to_json(&c)); return } }
    }
    let mut rng = Rng(seed.wrapping_mul(0x9E3779B97F4A7C15) | 1);
    let mut distinct = BTreeSet::new();
    for n in 0..cases {
        let ni = 1 + rng.below(10) as usize;                  // 1..=10 incoming voters
        let joint = rng.below(3) == 0;
        let incoming: Vec<u64> = (1..=ni as u64).collect();
        let outgoing: Vec<u64> = if joint { let lo = 1 + rng.below(ni as u64); let len = 1 + rng.below(9); (lo..lo + len).collect() } else { vec![] };
        let mut acks = BTreeMap::new(); let mut votes = BTreeMap::new();
        let dom = 1 + rng.below(6);
        let ngroups = rng.below(4);
        for id in 1..=20u64 {
            if rng.below(8) != 0 { acks.insert(id, (rng.below(dom + 1) * 10, if ngroups == 0 { 0 } else { rng.below(ngroups + 1) })); }
            match rng.below(3) { 0 => { votes.insert(id, true); } 1 => { votes.insert(id, false); } _ => {} }
        }
        let case = Case { incoming, outgoing, acks, votes, group_commit: rng.below(3) == 0 };
        if n < 200000 { distinct.insert((case.incoming.len(), case.outgoing.len(), case.group_commit)); }
        if let Some(w) = check(&case) {
            println!("{{\"violation\":{:?},\"input\":{}}}", w, to_json(&case));
            std::process::exit(1);
        }
    }
    println!("{{\"ok\":true,\"cases\":{},\"distinct_shapes\":{}}}", cases, distinct.len());
}
