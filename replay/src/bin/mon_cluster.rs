// Cluster-level replay monitor (witness finder / fallback; bounded; never proof): three REAL RawNode<MemStorage> nodes (all voters at
// the start; every other case proposes membership changes - remove / re-add / demote to learner - that are applied when committed),
// synchronous Ready handling (write, then release persisted messages), and a network that may delay, reorder, duplicate
// or drop messages and partition nodes.  Random schedules of ticks, campaigns, proposals, read requests, deliveries.
// --prop selects what is reported:
//   C08  every ReadState appears on the node where the read was issued and carries an index >= the highest commit index
//        any node had reached when it was issued (unique contexts, ReadOnlyOption::Safe)
//   C05  log matching between every pair of nodes after every step; no node replaces an entry at or below its commit index
//   C03  leader completeness: every entry in any node's committed prefix is in the log of every leader of a later term
//   C04  a leader's commit index never exceeds the index stored (synchronously persisted) on a majority
//   C20  no library call panics (read contexts are reused, also by different nodes)
// usage: mon_cluster --prop Cxx [--seed N] [--cases K] [--replay '{"seed":S,"case":K}']
use raft::prelude::*;
use raft::storage::MemStorage;
use raft::{StateRole, Storage};
use slog::{o, Discard, Logger};
use std::collections::BTreeMap;

static STAT_READS: std::sync::atomic::AtomicU64 = std::sync::atomic::AtomicU64::new(0);
static STAT_PANICS: std::sync::atomic::AtomicU64 = std::sync::atomic::AtomicU64::new(0);
static STAT_COMMITS: std::sync::atomic::AtomicU64 = std::sync::atomic::AtomicU64::new(0);
struct Rng(u64);
impl Rng { fn next(&mut self) -> u64 { self.0 ^= self.0 << 13; self.0 ^= self.0 >> 7; self.0 ^= self.0 << 17; self.0 } fn below(&mut self, n: u64) -> u64 { if n == 0 { 0 } else { self.next() % n } } }

#[derive(Clone, Debug)]
enum Op { Tick(u64, u64), Campaign(u64), Propose(u64), Read(u64), Deliver(u64), Drop(u64), Dup(u64), Cut(u64), Heal, DeliverAll, DeliverSide, CutLeader, Conf(u64, u64, u64), ProposeQuiet(u64), Unreachable(u64, u64), StepQuiet(u64) }

struct Node { n: RawNode<MemStorage>, s: MemStorage }
struct World { nodes: Vec<Node>, net: Vec<Message>, cut: Option<u64>, reads: BTreeMap<Vec<u8>, (u64, u64)>, next_ctx: u64,
               committed: BTreeMap<u64, (u64, Vec<u8>)>, prop: String, check_quorum: bool, before: Vec<(u64, Vec<u64>)> }

macro_rules! guard { ($what:expr, $e:expr) => { match std::panic::catch_unwind(std::panic::AssertUnwindSafe(|| $e)) { Ok(v) => v, Err(_) => return Some(format!("{} panicked", $what)) } } }

impl World {
    fn new(prop: &str, pre_vote: bool, check_quorum: bool, batch: bool) -> World {
        let l = Logger::root(Discard, o!());
        let nodes = (1..=3u64).map(|id| { let s = MemStorage::new_with_conf_state((vec![1, 2, 3], vec![]));
            let cfg = Config { id, election_tick: 10, heartbeat_tick: 1, max_size_per_msg: 1 << 20, max_inflight_msgs: 16, pre_vote, check_quorum, batch_append: batch, ..Default::default() };
            Node { n: RawNode::new(&cfg, s.clone(), &l).unwrap(), s } }).collect();
        World { nodes, net: vec![], cut: None, reads: BTreeMap::new(), next_ctx: 1, committed: BTreeMap::new(), prop: prop.to_string(), check_quorum, before: vec![(0, vec![1, 2, 3]); 3] }
    }
    fn max_commit(&self) -> u64 { self.nodes.iter().map(|x| x.n.raft.raft_log.committed).max().unwrap() }
    // synchronous Ready loop of node i
    fn drive(&mut self, i: usize) -> Option<String> {
        for _ in 0..20 {
            if !guard!("has_ready", self.nodes[i].n.has_ready()) { break; }
            let mut rd = guard!("ready", self.nodes[i].n.ready());
            let mut out: Vec<Message> = rd.take_messages();
            for rs in rd.take_read_states() { if let Some(w) = self.on_read_state(i as u64 + 1, &rs) { return Some(w); } }
            if !rd.snapshot().is_empty() { self.nodes[i].s.wl().apply_snapshot(rd.snapshot().clone()).unwrap(); }
            if !rd.entries().is_empty() { self.nodes[i].s.wl().append(rd.entries()).unwrap(); }
            if let Some(hs) = rd.hs() { self.nodes[i].s.wl().set_hardstate(hs.clone()); }
            out.extend(rd.take_persisted_messages());
            let mut ce = rd.take_committed_entries();
            let mut light = guard!("advance_append", self.nodes[i].n.advance_append(rd));
            if let Some(c) = light.commit_index() { self.nodes[i].s.wl().mut_hard_state().set_commit(c); }
            out.extend(light.take_messages());
            ce.extend(light.take_committed_entries());
            for e in ce {
                if e.get_entry_type() == EntryType::EntryConfChange && !e.data.is_empty() {
                    // the application applies a committed membership change and stores the resulting ConfState
                    use protobuf::Message as _;
                    let mut cc = ConfChange::default();
                    if cc.merge_from_bytes(e.get_data()).is_ok() {
                        if let Ok(cs) = guard!("apply_conf_change", self.nodes[i].n.apply_conf_change(&cc)) { self.nodes[i].s.wl().set_conf_state(cs); }
                    }
                }
                // state-machine view: one value per index, ever
                if let Some((t, d)) = self.committed.get(&e.index) { if (*t, d) != (e.term, &e.data.to_vec()) && self.prop == "C03" { return Some(format!("node {} applies (index {}, term {}) but (index {}, term {}) was applied before", i + 1, e.index, e.term, e.index, t)); } }
                else { STAT_COMMITS.fetch_add(1, std::sync::atomic::Ordering::Relaxed); self.committed.insert(e.index, (e.term, e.data.to_vec())); }
            }
            guard!("advance_apply", self.nodes[i].n.advance_apply());
            // a partition cuts messages at SEND time; what is already in flight may still arrive (delayed)
            let cut = self.cut;
            self.net.extend(out.into_iter().filter(|m| match cut { Some(c) => (m.from == c) == (m.to == c), None => true }));
        }
        None
    }
    fn on_read_state(&mut self, node: u64, rs: &ReadState) -> Option<String> {
        STAT_READS.fetch_add(1, std::sync::atomic::Ordering::Relaxed);
        if self.prop != "C08" { return None; }
        match self.reads.get(&rs.request_ctx) {
            None => Some(format!("node {} returned a read state for an unknown context", node)),
            Some((issuer, commit_at_issue)) => {
                if *issuer != node { return Some(format!("read issued on node {} was answered on node {}", issuer, node)); }
                if rs.index < *commit_at_issue { return Some(format!("STALE READ: node {} answered a read with index {} but commit index {} had already been reached when it was issued", node, rs.index, commit_at_issue)); }
                None
            }
        }
    }
    fn step_msg(&mut self, m: Message) -> Option<String> {
        let to = m.to as usize; if to < 1 || to > 3 { return None; }
        let _ = guard!("step", self.nodes[to - 1].n.step(m));
        self.drive(to - 1)
    }
    fn check(&self) -> Option<String> {
        let logs: Vec<Vec<Entry>> = self.nodes.iter().map(|x| x.n.raft.raft_log.all_entries()).collect();
        if self.prop == "C05" {
            for a in 0..3 { for b in a + 1..3 {
                // largest common (index, term): everything below both still retain must agree
                let (la, lb) = (&logs[a], &logs[b]);
                for ea in la.iter().rev() { if let Some(eb) = lb.iter().find(|e| e.index == ea.index) { if eb.term == ea.term {
                    for x in la.iter().filter(|e| e.index <= ea.index) { if let Some(y) = lb.iter().find(|e| e.index == x.index) { if y.term != x.term || y.data != x.data {
                        return Some(format!("LOG MATCHING: nodes {} and {} both hold (index {}, term {}) but differ at index {} (term {} vs {})", a + 1, b + 1, ea.index, ea.term, x.index, x.term, y.term)); } } }
                    break; } } }
            } }
        }
        if self.prop == "C03" {
            for (i, x) in self.nodes.iter().enumerate() { if x.n.raft.state == StateRole::Leader {
                for (j, y) in self.nodes.iter().enumerate() { if y.n.raft.term <= x.n.raft.term { let c = y.n.raft.raft_log.committed;
                    for e in logs[j].iter().filter(|e| e.index <= c) { match logs[i].iter().find(|f| f.index == e.index) {
                        Some(f) if f.term == e.term => {}
                        Some(f) => return Some(format!("LEADER COMPLETENESS: node {} committed (index {}, term {}) but leader {} of term {} holds term {} there", j + 1, e.index, e.term, i + 1, x.n.raft.term, f.term)),
                        None => if e.index > x.n.raft.raft_log.last_index() { return Some(format!("LEADER COMPLETENESS: node {} committed index {} but the log of leader {} of term {} ends at {}", j + 1, e.index, i + 1, x.n.raft.term, x.n.raft.raft_log.last_index())); } } } } }
            } }
        }
        if self.prop == "C04" {
            for x in self.nodes.iter() { if x.n.raft.state == StateRole::Leader { let c = x.n.raft.raft_log.committed;
                let mut voters: Vec<u64> = x.n.raft.prs().conf().voters().ids().iter().collect(); voters.sort();
                // the rule is about the configuration the entry was committed under: only commits made during this step under an unchanged configuration are judged
                let before = &self.before[(x.n.raft.id - 1) as usize];
                if before.1 != voters || c <= before.0 { continue; }
                if !x.n.raft.prs().conf().to_conf_state().voters_outgoing.is_empty() || voters.is_empty() || x.n.raft.raft_log.term(c).ok() != Some(x.n.raft.term) { continue; }
                let holders = self.nodes.iter().filter(|y| voters.contains(&y.n.raft.id) && y.s.last_index().unwrap() >= c && y.s.term(c).ok() == x.n.raft.raft_log.term(c).ok()).count();
                if 2 * holders <= voters.len() { return Some(format!("COMMIT RULE: leader {} of term {} has commit index {} but only {} of its {} voters store that entry", x.n.raft.id, x.n.raft.term, c, holders, voters.len())); } } }
        }
        None
    }
    fn apply(&mut self, op: &Op) -> Option<String> {
        match op {
            Op::Tick(i, k) => { let i = (*i % 3) as usize; for _ in 0..*k { guard!("tick", self.nodes[i].n.tick()); } self.drive(i) }
            Op::Campaign(i) => { let i = (*i % 3) as usize; let _ = guard!("campaign", self.nodes[i].n.campaign()); self.drive(i) }
            Op::Propose(i) => { let i = (*i % 3) as usize; let d = vec![self.next_ctx as u8, 7]; self.next_ctx += 1; let _ = guard!("propose", self.nodes[i].n.propose(vec![], d)); self.drive(i) }
            Op::Read(i) => { let i = (*i % 3) as usize;
                // C20 (panics only): contexts repeat, also across nodes; otherwise every read has its own context
                let ctx = if self.prop == "C20" { format!("r{}", self.next_ctx % 3).into_bytes() } else { format!("r{}", self.next_ctx).into_bytes() }; self.next_ctx += 1;
                self.reads.insert(ctx.clone(), (i as u64 + 1, self.max_commit())); guard!("read_index", self.nodes[i].n.read_index(ctx)); self.drive(i) }
            Op::Deliver(k) => { if self.net.is_empty() { return None; } let k = (*k % self.net.len() as u64) as usize; let m = self.net.remove(k); self.step_msg(m) }
            Op::Drop(k) => { if self.net.is_empty() { return None; } let k = (*k % self.net.len() as u64) as usize; self.net.remove(k); None }
            Op::Dup(k) => { if self.net.is_empty() { return None; } let k = (*k % self.net.len() as u64) as usize; let m = self.net[k].clone(); self.net.push(m); None }
            Op::Conf(i, kind, target) => { let i = (*i % 3) as usize;
                let mut cc = ConfChange::default(); cc.set_change_type(match kind % 3 { 0 => ConfChangeType::RemoveNode, 1 => ConfChangeType::AddNode, _ => ConfChangeType::AddLearnerNode }); cc.node_id = 1 + target % 3;
                let _ = guard!("propose_conf_change", self.nodes[i].n.propose_conf_change(vec![], cc)); self.drive(i) }
            // several calls between two Ready rounds: nothing is driven here, the messages stay in the node's outbox
            Op::ProposeQuiet(i) => { let i = (*i % 3) as usize; let d = vec![self.next_ctx as u8, 9]; self.next_ctx += 1; let _ = guard!("propose", self.nodes[i].n.propose(vec![], d)); None }
            Op::Unreachable(i, j) => { let i = (*i % 3) as usize; guard!("report_unreachable", self.nodes[i].n.report_unreachable(1 + *j % 3)); None }
            Op::StepQuiet(k) => { if self.net.is_empty() { return None; } let k = (*k % self.net.len() as u64) as usize; let m = self.net.remove(k); let to = m.to as usize; if to < 1 || to > 3 { return None; } let _ = guard!("step", self.nodes[to - 1].n.step(m)); None }
            Op::Cut(i) => { self.cut = Some(1 + *i % 3); None }
            Op::Heal => { self.cut = None; None }
            // everything except what is addressed to the partitioned node: those messages stay in flight (delayed)
            Op::DeliverSide => { let c = self.cut.unwrap_or(0); for _ in 0..200 { match self.net.iter().position(|m| m.to != c) { Some(k) => { let m = self.net.remove(k); if let Some(w) = self.step_msg(m) { return Some(w); } } None => break } } None }
            Op::CutLeader => { if let Some(x) = self.nodes.iter().find(|x| x.n.raft.state == StateRole::Leader) { self.cut = Some(x.n.raft.id); } None }
            Op::DeliverAll => { for _ in 0..200 { if self.net.is_empty() { break; } let m = self.net.remove(0); if let Some(w) = self.step_msg(m) { return Some(w); } } None }
        }
    }
}
fn run(prop: &str, pre_vote: bool, check_quorum: bool, ops: &[Op]) -> Option<String> {
    // batch_append on in the cases that also use the quiet ops (several calls between two Ready rounds)
    let batch = ops.iter().any(|o| matches!(o, Op::ProposeQuiet(_)));
    let mut w = World::new(prop, pre_vote, check_quorum, batch);
    let _ = w.check_quorum;
    for (k, op) in ops.iter().enumerate() {
        w.before = w.nodes.iter().map(|x| { let mut v: Vec<u64> = x.n.raft.prs().conf().voters().ids().iter().collect(); v.sort(); (x.n.raft.raft_log.committed, v) }).collect();
        if let Some(x) = w.apply(op) { if x.ends_with("panicked") && prop != "C20" { STAT_PANICS.fetch_add(1, std::sync::atomic::Ordering::Relaxed); return None; } return Some(format!("op #{} {:?}: {}", k, op, x)); }
        if let Some(x) = w.check() { return Some(format!("after op #{} {:?}: {}", k, op, x)); }
    }
    None
}
fn gen(rng: &mut Rng) -> (bool, bool, Vec<Op>) {
    let n = 10 + rng.below(60); let mut ops = vec![Op::Campaign(rng.below(3)), Op::DeliverAll];
    for _ in 0..n { ops.push(match rng.below(24) { 20 | 21 => Op::DeliverSide, 22 => Op::CutLeader, 23 => Op::Campaign(rng.below(3)), 0 | 1 => Op::Tick(rng.below(3), 1 + rng.below(12)), 2 => Op::Campaign(rng.below(3)), 3..=5 => Op::Propose(rng.below(3)), 6..=8 => Op::Read(rng.below(3)),
        9..=13 => Op::Deliver(rng.below(64)), 14 => Op::Drop(rng.below(64)), 15 => Op::Dup(rng.below(64)), 16 => Op::Cut(rng.below(3)), 17 => Op::Heal, _ => Op::DeliverAll }); }
    // every third case makes several calls between two Ready rounds (proposals, unreachable reports, steps whose Ready is taken later); batch_append is on there
    if rng.below(3) == 0 { let k = 2 + rng.below(8); for _ in 0..k { let at = 2 + rng.below(ops.len() as u64 - 1) as usize; ops.insert(at, match rng.below(4) { 0 | 1 => Op::ProposeQuiet(rng.below(3)), 2 => Op::Unreachable(rng.below(3), rng.below(3)), _ => Op::StepQuiet(rng.below(64)) }); } }
    // every other case also proposes membership changes (remove / re-add / demote one of the three nodes) on random nodes
    if rng.below(2) == 0 { let k = 1 + rng.below(4); for _ in 0..k { let at = 2 + rng.below(ops.len() as u64 - 1) as usize; ops.insert(at, Op::Conf(rng.below(3), rng.below(3), rng.below(3))); let at2 = (at + 1 + rng.below(4) as usize).min(ops.len()); ops.insert(at2, Op::DeliverAll); } }
    (rng.below(2) == 0, rng.below(2) == 0, ops)
}
fn main() {
    let args: Vec<String> = std::env::args().collect();
    let mut seed = 1u64; let mut cases = 2000u64; let mut replay: Option<String> = None; let mut prop = "C08".to_string(); let mut i = 1;
    while i < args.len() { match args[i].as_str() { "--seed" => { seed = args[i + 1].parse().unwrap(); i += 1 } "--cases" => { cases = args[i + 1].parse().unwrap(); i += 1 } "--replay" => { replay = Some(args[i + 1].clone()); i += 1 } "--prop" => { prop = args[i + 1].clone(); i += 1 } _ => {} } i += 1; }
    std::panic::set_hook(Box::new(|_| {}));
    let one = |seed: u64, upto: u64, only_last: bool| -> Option<(u64, Vec<Op>, String)> {
        let mut rng = Rng(seed.wrapping_mul(0x9E3779B97F4A7C15) | 1);
        for k in 0..=upto { let (pv, cq, ops) = gen(&mut rng); if only_last && k != upto { continue; } if let Some(w) = run(&prop, pv, cq, &ops) { return Some((k, ops, w)); } }
        None };
    if let Some(r) = replay {
        let nums: Vec<u64> = r.split(|c: char| !c.is_ascii_digit()).filter(|s| !s.is_empty()).map(|s| s.parse().unwrap()).collect();
        match one(nums[0], nums[1], true) { Some((k, ops, w)) => { println!("{{\"violation\":{:?},\"input\":{{\"seed\":{},\"case\":{},\"ops\":\"{:?}\"}}}}", w, nums[0], k, ops); std::process::exit(1) } None => { println!("{{\"ok\":true}}"); return } }
    }
    match one(seed, cases - 1, false) { Some((k, ops, w)) => { println!("{{\"violation\":{:?},\"input\":{{\"seed\":{},\"case\":{},\"ops\":\"{:?}\"}}}}", w, seed, k, ops); std::process::exit(1) } None => println!("{{\"ok\":true,\"cases\":{},\"read_states\":{},\"entries_applied\":{},\"cases_abandoned_on_panic\":{}}}", cases, STAT_READS.load(std::sync::atomic::Ordering::Relaxed), STAT_COMMITS.load(std::sync::atomic::Ordering::Relaxed), STAT_PANICS.load(std::sync::atomic::Ordering::Relaxed)) }
}
