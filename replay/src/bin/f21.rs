// F21 (C20): restart window with the application ahead of the restored commit index.  A node of {1,2,3} restarts with log
// 1..=10, persisted HardState.commit = 5 (commit-only hard-state changes are not must_sync) and Config::applied = 8; the
// application compacts what it applied (compact(8), allowed: <= applied), so first_index = 8 > committed + 1.  The node
// campaigns; a peer's vote rejection carries commit 9 / commit_term 1; maybe_commit_by_vote fast-forwards the commit index
// and scans [old commit + 1, commit + 1) = [6, 10) for membership changes; 6 and 7 are compacted and the scan aborts with
// fatal!("error scanning unapplied entries [6, 10): Store(Compacted)").  hup() clamps the very same scan to first_index.
// (scenario by a sub-agent)
use raft::eraftpb::*;
use raft::storage::MemStorage;
use raft::{Config, RawNode, StateRole};
use slog::{o, Discard, Logger};
fn main() {
    let l = Logger::root(Discard, o!());
    let s = MemStorage::new_with_conf_state((vec![1, 2, 3], vec![]));
    { let mut core = s.wl();
      let ents: Vec<Entry> = (1..=10u64).map(|i| { let mut e = Entry::default(); e.index = i; e.term = 1; e }).collect();
      core.append(&ents).unwrap();
      let mut hs = HardState::default(); hs.term = 1; hs.commit = 5; core.set_hardstate(hs); }
    let cfg = Config { id: 1, election_tick: 10, heartbeat_tick: 1, applied: 8, ..Default::default() };
    let mut node = RawNode::new(&cfg, s.clone(), &l).unwrap();
    assert_eq!((node.raft.raft_log.committed, node.raft.raft_log.applied), (5, 8));
    s.wl().compact(8).unwrap();
    node.campaign().unwrap();
    assert_eq!(node.raft.state, StateRole::Candidate);
    let rd = node.ready(); s.wl().set_hardstate(rd.hs().unwrap().clone()); let _ = node.advance(rd);
    let mut m = Message::default();
    m.set_msg_type(MessageType::MsgRequestVoteResponse); m.from = 2; m.to = 1; m.term = 2; m.reject = true; m.commit = 9; m.commit_term = 1;
    println!("candidate: committed 5, applied 8, first_index {}; peer rejects with commit 9", node.raft.raft_log.first_index());
    std::panic::set_hook(Box::new(|i| { println!("panic: {}", i); }));
    match std::panic::catch_unwind(std::panic::AssertUnwindSafe(|| { node.step(m).unwrap(); })) {
        Err(_) => { println!("VIOLATION C20: a vote rejection produced by a peer aborted the candidate"); std::process::exit(1) }
        Ok(()) => { println!("ok: committed = {}", node.raft.raft_log.committed); assert_eq!(node.raft.raft_log.committed, 9); }
    }
}
