// F6 (C08): a leader that removed itself from the voters keeps leading (post_conf_change returns early).  With exactly
// one voter left, the leader's MsgReadIndex handler takes the "single voter" shortcut (ProgressTracker::is_singleton)
// and answers from its own commit index WITHOUT a quorum round - although the single voter is not this node.  The
// remaining voter can meanwhile elect itself and commit: the removed leader serves a stale read.
use raft::prelude::*;
use raft::storage::MemStorage;
use raft::StateRole;
use slog::{o, Discard, Logger};
fn node(id: u64, l: &Logger) -> (RawNode<MemStorage>, MemStorage) {
    let s = MemStorage::new_with_conf_state((vec![1, 2], vec![]));
    let cfg = Config { id, election_tick: 10, heartbeat_tick: 1, max_size_per_msg: 1 << 20, max_inflight_msgs: 16, ..Default::default() };
    (RawNode::new(&cfg, s.clone(), l).unwrap(), s)
}
// synchronous Ready handling; returns outgoing messages, applies conf changes, collects read states
fn drive(n: &mut RawNode<MemStorage>, s: &MemStorage, reads: &mut Vec<ReadState>) -> Vec<Message> {
    let mut out = vec![];
    while n.has_ready() {
        let mut rd = n.ready();
        out.extend(rd.take_messages());
        reads.extend(rd.take_read_states());
        if !rd.entries().is_empty() { s.wl().append(rd.entries()).unwrap(); }
        if let Some(hs) = rd.hs() { s.wl().set_hardstate(hs.clone()); }
        out.extend(rd.take_persisted_messages());
        let mut committed = rd.take_committed_entries();
        let mut light = n.advance_append(rd);
        if let Some(c) = light.commit_index() { s.wl().mut_hard_state().set_commit(c); }
        out.extend(light.take_messages());
        committed.extend(light.take_committed_entries());
        for e in committed {
            if e.get_entry_type() == EntryType::EntryConfChange {
                let mut cc = ConfChange::default(); protobuf::Message::merge_from_bytes(&mut cc, &e.data).unwrap();
                let cs = n.apply_conf_change(&cc).unwrap(); s.wl().set_conf_state(cs);
            }
        }
        n.advance_apply();
    }
    out
}
fn main() {
    let l = Logger::root(Discard, o!());
    let (mut n1, s1) = node(1, &l); let (mut n2, s2) = node(2, &l);
    let (mut r1, mut r2) = (vec![], vec![]);
    n1.campaign().unwrap();
    // deliver until quiet
    let mut pump = |n1: &mut RawNode<MemStorage>, n2: &mut RawNode<MemStorage>, r1: &mut Vec<ReadState>, r2: &mut Vec<ReadState>, connected: bool| {
        for _ in 0..50 {
            let m1 = drive(n1, &s1, r1); let m2 = drive(n2, &s2, r2);
            if m1.is_empty() && m2.is_empty() { break; }
            if connected { for m in m1 { if m.to == 2 { let _ = n2.step(m); } } for m in m2 { if m.to == 1 { let _ = n1.step(m); } } }
        }
    };
    pump(&mut n1, &mut n2, &mut r1, &mut r2, true);
    assert_eq!(n1.raft.state, StateRole::Leader);
    // the leader removes itself
    let mut cc = ConfChange::default(); cc.set_change_type(ConfChangeType::RemoveNode); cc.node_id = 1;
    n1.propose_conf_change(vec![], cc).unwrap();
    pump(&mut n1, &mut n2, &mut r1, &mut r2, true);
    println!("node 1: state {:?} term {} voters {:?} commit {}", n1.raft.state, n1.raft.term, n1.raft.prs().conf().voters().ids().iter().collect::<Vec<_>>(), n1.raft.raft_log.committed);
    // partition: node 2, now the only voter, times out, elects itself and commits a write
    for _ in 0..30 { n2.tick(); }
    pump(&mut n1, &mut n2, &mut r1, &mut r2, false);
    let _ = n2.propose(vec![], b"x".to_vec());
    pump(&mut n1, &mut n2, &mut r1, &mut r2, false);
    println!("node 2: state {:?} term {} commit {}", n2.raft.state, n2.raft.term, n2.raft.raft_log.committed);
    let commit_at_issue = n1.raft.raft_log.committed.max(n2.raft.raft_log.committed);
    // a read issued on the removed (stale) leader AFTER node 2 committed
    n1.read_index(b"r".to_vec());
    pump(&mut n1, &mut n2, &mut r1, &mut r2, false);
    println!("node 1 (state {:?}, term {}) read states: {:?}; highest commit index when the read was issued: {}", n1.raft.state, n1.raft.term, r1.iter().map(|r| r.index).collect::<Vec<_>>(), commit_at_issue);
    if r1.iter().any(|r| r.index < commit_at_issue) { println!("VIOLATION C08: stale read answered without a quorum round by a leader that is not a voter"); std::process::exit(1); }
    println!("ok: no stale read state");
}
