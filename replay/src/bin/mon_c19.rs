// Replay monitor for C19: the REAL MemStorage vs a (snapshot point + contiguous entries) model under random
// contract-abiding sequences of append / compact / apply_snapshot / commit_to, with every query compared after
// each step.  Witness finder + bounded replay; never proof.
use raft::eraftpb::{ConfState, Entry, Snapshot};
use raft::storage::{MemStorage, Storage};
use raft::{Error, GetEntriesContext, StorageError};
struct Rng(u64);
impl Rng { fn next(&mut self) -> u64 { self.0 ^= self.0 << 13; self.0 ^= self.0 >> 7; self.0 ^= self.0 << 17; self.0 } fn below(&mut self, n: u64) -> u64 { if n == 0 { 0 } else { self.next() % n } } }
fn ent(i: u64, t: u64, sz: usize) -> Entry { let mut e = Entry::default(); e.index = i; e.term = t; e.data = vec![7u8; sz].into(); e }
fn esize(e: &Entry) -> u64 { use protobuf::Message; e.compute_size() as u64 }
#[derive(Clone, Debug)]
enum Op { Append(u64, Vec<(u64, usize)>), Compact(u64), Snap(u64, u64), Commit(u64) }
struct Model { si: u64, st: u64, ents: Vec<Entry>, commit: u64, cs_voters: Vec<u64> }
impl Model {
    fn first(&self) -> u64 { self.ents.first().map_or(self.si + 1, |e| e.index) }
    fn last(&self) -> u64 { self.ents.last().map_or(self.si, |e| e.index) }
    fn term(&self, i: u64) -> Result<u64, &'static str> { if i == self.si { Ok(self.st) } else if i < self.first() { Err("Compacted") } else if i > self.last() { Err("Unavailable") } else { Ok(self.ents[(i - self.first()) as usize].term) } }
}
fn err_name(e: &Error) -> &'static str { match e { Error::Store(StorageError::Compacted) => "Compacted", Error::Store(StorageError::Unavailable) => "Unavailable", _ => "other" } }
fn compare(s: &MemStorage, m: &Model, rng: &mut Rng) -> Option<String> {
    let (f, l) = (s.first_index().unwrap(), s.last_index().unwrap());
    if f != m.first() || l != m.last() { return Some(format!("first/last = {}/{} but the model says {}/{}", f, l, m.first(), m.last())); }
    let lo = m.si.saturating_sub(1);
    for i in lo..=m.last() + 2 {
        let got = s.term(i).map_err(|e| err_name(&e));
        if got != m.term(i) { return Some(format!("term({}) = {:?} but the model says {:?}", i, got, m.term(i))); }
    }
    // range reads
    for _ in 0..4 {
        let lo = m.first().saturating_sub(1) + rng.below(m.last() + 2 - m.first().saturating_sub(1) + 1);
        let hi = lo + rng.below(m.last() + 2 - lo.min(m.last() + 1));
        let hi = hi.min(m.last() + 1); if lo > hi { continue; }
        let max: Option<u64> = match rng.below(3) { 0 => None, 1 => Some(rng.below(200)), _ => Some(u64::MAX) };
        let got = std::panic::catch_unwind(std::panic::AssertUnwindSafe(|| s.entries(lo, hi, max, GetEntriesContext::empty(false))));
        let got = match got { Ok(g) => g, Err(_) => return Some(format!("entries({}, {}, {:?}) panicked (first {}, last {})", lo, hi, max, m.first(), m.last())) };
        if lo < m.first() { if got.as_ref().err().map(err_name) != Some("Compacted") { return Some(format!("entries({}, {}) below first {} did not answer Compacted: {:?}", lo, hi, m.first(), got.map(|v| v.len()))); } continue; }
        let full: Vec<Entry> = m.ents[(lo - m.first()) as usize..(hi - m.first()) as usize].to_vec();
        let mut want = full.clone();
        if want.len() > 1 { if let Some(mx) = max { if mx != u64::MAX { let mut size = 0u64; let mut n = 0; for e in &full { size += esize(e); if n > 0 && size > mx { break; } n += 1; } want.truncate(n); } } }
        match got { Ok(v) => { if v != want { return Some(format!("entries({}, {}, {:?}) returned indexes {:?} but the model says {:?}", lo, hi, max, v.iter().map(|e| e.index).collect::<Vec<_>>(), want.iter().map(|e| e.index).collect::<Vec<_>>())); } } Err(e) => return Some(format!("entries({}, {}, {:?}) failed: {:?}", lo, hi, max, e)) }
    }
    // snapshot at the stored commit index
    if m.commit >= m.si && m.commit <= m.last() && (m.commit == m.si || m.commit >= m.first()) {
        let req = rng.below(m.commit + 3);
        match std::panic::catch_unwind(std::panic::AssertUnwindSafe(|| s.snapshot(req, 0))) {
            Err(_) => return Some(format!("snapshot({}) panicked (commit {}, snap {}, first {}, last {})", req, m.commit, m.si, m.first(), m.last())),
            Ok(Err(e)) => return Some(format!("snapshot({}) failed: {:?}", req, e)),
            Ok(Ok(sn)) => {
                let md = sn.get_metadata();
                if md.index < req { return Some(format!("snapshot({}) has index {} below the requested one", req, md.index)); }
                if req <= m.commit && (md.index != m.commit || Ok(md.term) != m.term(m.commit) || md.get_conf_state().voters != m.cs_voters) {
                    return Some(format!("snapshot({}) at commit {} carries (index {}, term {}, voters {:?}) but the model says (index {}, term {:?}, voters {:?})", req, m.commit, md.index, md.term, md.get_conf_state().voters, m.commit, m.term(m.commit), m.cs_voters)); }
            }
        }
    }
    None
}
fn run(ops: &[Op], rng: &mut Rng) -> Option<String> {
    let mut cs = ConfState::default(); cs.voters = vec![1, 2, 3];
    let s = MemStorage::new_with_conf_state(cs);
    let mut m = Model { si: 0, st: 0, ents: vec![], commit: 0, cs_voters: vec![1, 2, 3] };
    for (k, op) in ops.iter().enumerate() {
        match op {
            Op::Append(from, items) => {
                let from = (*from).clamp(m.first().max(m.commit + 1), m.last() + 1); // no gap, not into compacted, not below commit
                let mut t = if from > m.first() { m.ents[(from - 1 - m.first()) as usize].term } else { m.st }.max(1);
                let mut v = vec![]; for (j, (dt, sz)) in items.iter().enumerate() { t += dt; v.push(ent(from + j as u64, t, *sz)); }
                if v.is_empty() { continue; }
                s.wl().append(&v).unwrap();
                m.ents.truncate((from - m.first()) as usize); m.ents.extend(v);
            }
            Op::Compact(c) => { let c = (*c).min(m.commit + 1).min(m.last() + 1); // never beyond applied (<= commit)
                if c <= m.first() { s.wl().compact(c).unwrap(); continue; }
                let lt = m.term(c - 1).unwrap();
                s.wl().compact(c).unwrap();
                let keep: Vec<Entry> = m.ents[(c - m.first()) as usize..].to_vec();
                // the boundary (index, term) before the new first index is retained (Storage::term; fix 7cb0ad5)
                m.si = c - 1; m.st = lt; m.ents = keep; }
            Op::Snap(i, t) => { let mut sn = Snapshot::default(); sn.mut_metadata().index = *i; sn.mut_metadata().term = *t; let mut c2 = ConfState::default(); c2.voters = vec![1, 2, 3, 4]; sn.mut_metadata().set_conf_state(c2);
                let r = s.wl().apply_snapshot(sn);
                if m.first() > *i { if r.is_ok() { return Some(format!("op #{} {:?}: out-of-date snapshot accepted (first {})", k, op, m.first())); } }
                else { if r.is_err() { return Some(format!("op #{} {:?}: snapshot rejected", k, op)); } m.si = *i; m.st = *t; m.ents.clear(); m.commit = *i; m.cs_voters = vec![1, 2, 3, 4]; } }
            Op::Commit(c) => { if m.ents.is_empty() { continue; } let c = (*c).clamp(m.first(), m.last()); if c < m.commit { continue; } s.wl().commit_to(c).unwrap(); m.commit = c; }
        }
        // after compaction of everything the model's first is si+1 (snapshot point moved): see Op::Compact
        if let Some(w) = compare(&s, &m, rng) { return Some(format!("after op #{} {:?}: {}", k, op, w)); }
    }
    None
}
fn gen(rng: &mut Rng) -> Vec<Op> {
    let n = 1 + rng.below(10); let mut ops = vec![];
    for _ in 0..n { ops.push(match rng.below(8) { 0..=3 => Op::Append(rng.below(12), (0..1 + rng.below(4)).map(|_| (rng.below(2), rng.below(60) as usize)).collect()), 4 | 5 => Op::Compact(rng.below(12)), 6 => Op::Snap(rng.below(12), 1 + rng.below(5)), _ => Op::Commit(rng.below(12)) }); }
    ops
}
fn main() {
    let args: Vec<String> = std::env::args().collect();
    let mut seed = 1u64; let mut cases = 20000u64; let mut replay: Option<String> = None; let mut i = 1;
    while i < args.len() { match args[i].as_str() { "--seed" => { seed = args[i + 1].parse().unwrap(); i += 1 } "--cases" => { cases = args[i + 1].parse().unwrap(); i += 1 } "--replay" => { replay = Some(args[i + 1].clone()); i += 1 } _ => {} } i += 1; }
    std::panic::set_hook(Box::new(|_| {}));
    let one = |seed: u64, upto: u64, only_last: bool| -> Option<(u64, Vec<Op>, String)> {
        let mut rng = Rng(seed.wrapping_mul(0x9E3779B97F4A7C15) | 1);
        for k in 0..=upto { let ops = gen(&mut rng); let mut r2 = Rng(seed ^ k.wrapping_mul(0x2545F4914F6CDD1D) | 1); if only_last && k != upto { continue; } if let Some(w) = run(&ops, &mut r2) { return Some((k, ops, w)); } }
        None };
    if let Some(r) = replay {
        let nums: Vec<u64> = r.split(|c: char| !c.is_ascii_digit()).filter(|s| !s.is_empty()).map(|s| s.parse().unwrap()).collect();
        match one(nums[0], nums[1], true) { Some((k, ops, w)) => { println!("{{\"violation\":{:?},\"input\":{{\"seed\":{},\"case\":{},\"ops\":\"{:?}\"}}}}", w, nums[0], k, ops); std::process::exit(1) } None => { println!("{{\"ok\":true}}"); return } }
    }
    match one(seed, cases - 1, false) { Some((k, ops, w)) => { println!("{{\"violation\":{:?},\"input\":{{\"seed\":{},\"case\":{},\"ops\":\"{:?}\"}}}}", w, seed, k, ops); std::process::exit(1) } None => println!("{{\"ok\":true,\"cases\":{}}}", cases) }
}
