// Replay monitor for C06 (persist-before-send): a REAL RawNode<MemStorage> (lone voter 1 with learner 2, or voters
// {1,2,3}) is driven with random campaigns, ticks, proposals, vote requests / heartbeats / appends from peers at
// higher terms, synchronous and asynchronous Ready handling and late persistence notices.  The monitor keeps the
// DURABLE hard state = the HardState of the newest Ready the application has reported persisted; every message is
// checked at the moment it may be sent (Ready::messages() at once, persisted_messages() once that Ready is durable):
// its term must not exceed the durable term, and a vote grant needs the durable vote to name its receiver.
// Witness finder + bounded replay; never proof.
// usage: mon_c06 [--seed N] [--cases K] [--replay '{"seed":S,"case":K}']
use raft::prelude::*;
use raft::storage::MemStorage;
use raft::StateRole;
use slog::{o, Discard, Logger};

struct Rng(u64);
impl Rng { fn next(&mut self) -> u64 { self.0 ^= self.0 << 13; self.0 ^= self.0 >> 7; self.0 ^= self.0 << 17; self.0 } fn below(&mut self, n: u64) -> u64 { if n == 0 { 0 } else { self.next() % n } } }

#[derive(Clone, Debug)]
enum Op { Campaign, Tick(u64), Propose, ReadyAsync, ReadySync, Notify(u64), VoteReq(u64, u64, bool), Heartbeat(u64, u64), VoteResp(u64, bool), ReqSnap, Snap(u64), Append, Crash(u64), Compact }

// --prop C20: only panics are reported (no library call may panic under contract-abiding use); default (C06): only the
// persist-before-send checks are reported and a panicking case is abandoned
static mut PANICS_ONLY: bool = false;
fn panics_only() -> bool { unsafe { PANICS_ONLY } }
macro_rules! guard { ($what:expr, $e:expr) => { match std::panic::catch_unwind(std::panic::AssertUnwindSafe(|| $e)) { Ok(v) => v, Err(_) => return if panics_only() { Some(format!("{} panicked", $what)) } else { Some(String::new()) } } } }

type Writes = (Option<Snapshot>, Vec<Entry>, Option<HardState>);
fn apply_writes(st: &MemStorage, w: &Writes) {
    if let Some(s) = &w.0 { let _ = st.wl().apply_snapshot(s.clone()); }
    if !w.1.is_empty() { let first = st.first_index().unwrap(); let ents: Vec<Entry> = w.1.iter().filter(|e| e.index >= first).cloned().collect(); if !ents.is_empty() && ents[0].index <= st.last_index().unwrap() + 1 { st.wl().append(&ents).unwrap(); } }
    if let Some(hs) = &w.2 { let mut h = hs.clone(); let last = st.last_index().unwrap(); if h.commit > last { h.commit = last; } st.wl().set_hardstate(h); }
}
// an independent storage holding exactly what `src` holds (the image a process finds after a crash)
fn deep_copy(src: &MemStorage) -> MemStorage {
    let st = src.initial_state().unwrap(); let first = src.first_index().unwrap(); let last = src.last_index().unwrap();
    let ns = MemStorage::new(); ns.wl().set_conf_state(st.conf_state.clone());
    if first > 1 { let mut snap = Snapshot::default(); snap.mut_metadata().index = first - 1; snap.mut_metadata().term = src.term(first - 1).unwrap(); snap.mut_metadata().set_conf_state(st.conf_state.clone()); ns.wl().apply_snapshot(snap).unwrap(); }
    if last >= first { let ents = src.entries(first, last + 1, None, raft::GetEntriesContext::empty(false)).unwrap(); ns.wl().append(&ents).unwrap(); }
    ns.wl().set_hardstate(st.hard_state.clone());
    ns
}
// promises told to other nodes so far: the highest term of any released message, and the receiver of this node's vote per term
struct Told { term: u64, votes: std::collections::BTreeMap<u64, u64> }
fn note_told(what: &str, msgs: &[Message], told: &mut Told) -> Option<String> {
    for m in msgs {
        match m.get_msg_type() { MessageType::MsgRequestPreVote | MessageType::MsgRequestPreVoteResponse => continue, _ => {} }
        if m.term > told.term { told.term = m.term; }
        let vote_for = match m.get_msg_type() { MessageType::MsgRequestVote => Some(m.from), MessageType::MsgRequestVoteResponse if !m.reject => Some(m.to), _ => None };
        if let Some(x) = vote_for { match told.votes.get(&m.term) { Some(y) if *y != x => return Some(format!("{}: this node's vote in term {} was told to go to {} and now to {} (across restarts)", what, m.term, y, x)), _ => { told.votes.insert(m.term, x); } } }
    }
    None
}
fn check_msgs(what: &str, msgs: &[Message], durable: (u64, u64), sent: &mut Vec<(u64, u64, bool)>) -> Option<String> {
    for m in msgs {
        if panics_only() { match m.get_msg_type() { MessageType::MsgRequestVote => sent.push((m.to, m.term, false)), MessageType::MsgRequestPreVote => sent.push((m.to, m.term, true)), _ => {} } continue; }
        // remember released vote requests: a peer can only answer what it was sent
        match m.get_msg_type() { MessageType::MsgRequestVote => sent.push((m.to, m.term, false)), MessageType::MsgRequestPreVote => sent.push((m.to, m.term, true)), _ => {} }
        // local terms: MsgRequestPreVote carries term+1 without a promise; pre-vote responses echo the request's term
        let promise_term = match m.get_msg_type() { MessageType::MsgRequestPreVote | MessageType::MsgRequestPreVoteResponse => continue, _ => m.term };
        if promise_term > durable.0 { return Some(format!("{}: {:?} to {} at term {} may be sent while the durable hard state is (term {}, vote {})", what, m.get_msg_type(), m.to, m.term, durable.0, durable.1)); }
        if m.get_msg_type() == MessageType::MsgRequestVoteResponse && !m.reject && m.term == durable.0 && durable.1 != m.to { return Some(format!("{}: vote for {} granted at term {} while the durable vote is {}", what, m.to, m.term, durable.1)); }
    }
    None
}

fn run(lone: bool, ops: &[Op]) -> Option<String> {
    let logger = Logger::root(Discard, o!());
    let store = if lone { MemStorage::new_with_conf_state((vec![1], vec![2])) } else { MemStorage::new_with_conf_state((vec![1, 2, 3], vec![])) };
    // configuration flavour, fixed per case: pre-vote on for every other length, own priority 0 or 5
    let flavour = ops.len() as u64;
    let cfg = Config { id: 1, election_tick: 10, heartbeat_tick: 1, max_size_per_msg: 1 << 20, max_inflight_msgs: 16, pre_vote: flavour % 2 == 0, priority: if flavour % 3 == 0 { 5 } else { 0 }, ..Default::default() };
    let mut n = RawNode::new(&cfg, store.clone(), &logger).unwrap();
    let mut durable: (u64, u64) = (0, 0);
    let image = deep_copy(&store);      // what stable storage durably holds (writes of a Ready reach it when that Ready is reported durable)
    let mut store = store; let mut told = Told { term: 0, votes: Default::default() }; let mut app_applied: u64 = 0;
    let mut wpending: Vec<(u64, Writes)> = vec![];
    let mut cur_hs: (u64, u64) = (0, 0);                       // newest HardState handed to the application
    let mut pending: Vec<(u64, (u64, u64), Vec<Message>)> = vec![];
    let mut sent: Vec<(u64, u64, bool)> = vec![];    // vote requests released so far: (to, term, pre-vote)   // Ready number, hard state as of that Ready, its persisted messages
    for (k, op) in ops.iter().enumerate() {
        let r: Option<String> = (|| {
            match op {
                Op::Campaign => { let _ = guard!("campaign", n.campaign()); }
                Op::Tick(t) => { for _ in 0..*t { guard!("tick", n.tick()); } }
                Op::Propose => { let _ = guard!("propose", n.propose(vec![], vec![1, 2, 3])); }
                Op::VoteReq(from, dt, pre) => {
                    let mut m = Message::default(); m.set_msg_type(if *pre { MessageType::MsgRequestPreVote } else { MessageType::MsgRequestVote });
                    m.from = 2 + from % 2; m.to = 1; m.term = n.raft.term + dt;
                    if dt % 2 == 0 { m.index = 1000; m.log_term = m.term; } else { m.index = n.raft.raft_log.last_index(); m.log_term = n.raft.raft_log.last_term(); m.priority = (*from % 2) as i64 * 9; }
                    let _ = guard!("step", n.step(m));
                }
                Op::Heartbeat(from, dt) => {
                    let mut m = Message::default(); m.set_msg_type(MessageType::MsgHeartbeat); m.from = 2 + from % 2; m.to = 1; m.term = n.raft.term + dt;
                    let _ = guard!("step", n.step(m));
                }
                Op::VoteResp(from, reject) => {
                    let mut m = Message::default();
                    m.set_msg_type(if n.raft.state == StateRole::PreCandidate { MessageType::MsgRequestPreVoteResponse } else { MessageType::MsgRequestVoteResponse });
                    m.from = 2 + from % 2; m.to = 1; m.term = if n.raft.state == StateRole::PreCandidate { n.raft.term + 1 } else { n.raft.term }; m.reject = *reject;
 if *reject { let li = n.raft.raft_log.last_index(); if let Ok(t) = n.raft.raft_log.term(li) { if t > 0 { m.commit = li; m.commit_term = t; } } }                    if !sent.contains(&(m.from, m.term, n.raft.state == StateRole::PreCandidate)) { return None; }   // nothing to answer yet
                    let _ = guard!("step", n.step(m));
                }
                Op::Append => {
                    // the known leader replicates one entry of the current term right after this node's log and commits it
                    let from = n.raft.leader_id; if from == 0 || from == 1 { return None; }
                    if n.raft.term == 0 { return None; }   // no leader ever has term 0
                    let (li, lt) = (n.raft.raft_log.last_index(), n.raft.raft_log.last_term());
                    let mut e = Entry::default(); e.index = li + 1; e.term = n.raft.term;
                    let mut m = Message::default(); m.set_msg_type(MessageType::MsgAppend); m.from = from; m.to = 1; m.term = n.raft.term; m.index = li; m.log_term = lt; m.commit = li + 1; m.set_entries(vec![e].into());
                    let _ = guard!("step", n.step(m));
                }
                Op::Compact => {
                    // the application compacts what it has applied (allowed: up to its applied index), in the live storage and in the durable image
                    for st in [&store, &image] { let (f, l) = (st.first_index().unwrap(), st.last_index().unwrap()); if app_applied > f && app_applied <= l + 1 && st.initial_state().unwrap().hard_state.commit + 1 >= app_applied { let _ = st.wl().compact(app_applied); } }
                }
                Op::Crash(part) => {
                    // the process dies: everything not reported durable is lost - except that the write of the OLDEST unfinished Ready may have
                    // got part of the way (documented order: snapshot, entries, hard state); it restarts from the durable image
                    if let Some((_, w)) = wpending.first() { match part % 3 { 1 => apply_writes(&image, &(w.0.clone(), vec![], None)), 2 => apply_writes(&image, &(w.0.clone(), w.1.clone(), None)), _ => {} } }
                    pending.clear(); wpending.clear();
                    let ns = deep_copy(&image);
                    let snap_idx = ns.first_index().unwrap() - 1;
                    let applied = app_applied.min(ns.last_index().unwrap()).max(snap_idx);
                    app_applied = applied;
                    let rcfg = Config { applied, ..cfg.clone() };
                    let nn = guard!("RawNode::new (restart)", RawNode::new(&rcfg, ns.clone(), &logger));
                    match nn { Ok(x) => { n = x; store = ns; } Err(_) => return Some(String::new()) }
                    // the durable hard state is what the image holds (a partially written snapshot may have raised its term)
                    let ihs = image.initial_state().unwrap().hard_state; durable = (ihs.term, ihs.vote); cur_hs = durable;
                    if !panics_only() {
                        if n.raft.term < told.term { return Some(format!("restarted at term {} although a message of term {} was released before the crash", n.raft.term, told.term)); }
                        if let Some(x) = told.votes.get(&n.raft.term) { if n.raft.vote != *x { return Some(format!("restarted in term {} with vote {} although this node's vote in that term was told to go to {}", n.raft.term, n.raft.vote, x)); } }
                    }
                }
                Op::ReqSnap => { let _ = guard!("request_snapshot", n.request_snapshot()); }
                Op::Snap(back) => {
                    // the known leader answers with a snapshot of a committed position of this node's own log
                    let from = n.raft.leader_id; if from == 0 || from == 1 { return None; }
                    // a position of this node's own log around its commit index (0: at it, 1: below, 2 / 3: above), or 4: just beyond its log
                    let c = n.raft.raft_log.committed; let last = n.raft.raft_log.last_index();
                    let idx = match *back { 0 => c, 1 => c.saturating_sub(1), 2 => c + 1, 3 => c + 2, _ => last + 1 }; if idx == 0 { return None; }
                    let t = if idx > last { if idx != last + 1 { return None; } let lt = n.raft.raft_log.last_term(); if lt == 0 { n.raft.term } else { lt } } else { match n.raft.raft_log.term(idx) { Ok(t) => t, Err(_) => return None } };
                    if t == 0 { return None; }
                    let mut snap = Snapshot::default(); snap.mut_metadata().index = idx; snap.mut_metadata().term = t;
                    let mut cs = ConfState::default(); if lone { cs.set_voters(vec![1]); cs.set_learners(vec![2]); } else { cs.set_voters(vec![1, 2, 3]); }
                    snap.mut_metadata().set_conf_state(cs);
                    let mut m = Message::default(); m.set_msg_type(MessageType::MsgSnapshot); m.from = from; m.to = 1; m.term = n.raft.term; m.set_snapshot(snap);
                    let _ = guard!("step", n.step(m));
                }
                Op::ReadyAsync | Op::ReadySync => {
                    if !guard!("has_ready", n.has_ready()) { return None; }
                    let mut rd = guard!("ready", n.ready());
                    let num = rd.number();
                    let w: Writes = (if rd.snapshot().is_empty() { None } else { Some(rd.snapshot().clone()) }, rd.entries().to_vec(), rd.hs().cloned());
                    if !rd.snapshot().is_empty() { let _ = store.wl().apply_snapshot(rd.snapshot().clone()); app_applied = app_applied.max(rd.snapshot().get_metadata().index); }
                    if !rd.entries().is_empty() { store.wl().append(rd.entries()).unwrap(); }
                    if let Some(hs) = rd.hs() { store.wl().set_hardstate(hs.clone()); cur_hs = (hs.term, hs.vote); }
                    // messages() may be sent right now
                    if let Some(w) = check_msgs(&format!("Ready #{} messages()", num), rd.messages(), durable, &mut sent) { return Some(w); }
                    if !panics_only() { if let Some(x) = note_told(&format!("Ready #{} messages()", num), rd.messages(), &mut told) { return Some(x); } }
                    let _ = rd.take_messages();
                    let pm = rd.take_persisted_messages();
                    for e in rd.take_committed_entries() { app_applied = app_applied.max(e.index); }
                    if matches!(op, Op::ReadySync) {
                        // everything up to this Ready is durable before its persisted messages go out and advance_append runs
                        durable = cur_hs; pending.clear();
                        for (_, pw) in wpending.drain(..) { apply_writes(&image, &pw); } apply_writes(&image, &w);
                        if let Some(w) = check_msgs(&format!("Ready #{} persisted_messages()", num), &pm, durable, &mut sent) { return Some(w); }
                        if !panics_only() { if let Some(x) = note_told(&format!("Ready #{} persisted_messages()", num), &pm, &mut told) { return Some(x); } }
                        let mut light = guard!("advance_append", n.advance_append(rd));
                        if let Some(c) = light.commit_index() { store.wl().mut_hard_state().set_commit(c); }
                        if let Some(w) = check_msgs(&format!("LightReady after #{} messages()", num), light.messages(), durable, &mut sent) { return Some(w); }
                        if !panics_only() { if let Some(x) = note_told(&format!("LightReady after #{} messages()", num), light.messages(), &mut told) { return Some(x); } }
                        let _ = light.take_messages(); for e in light.take_committed_entries() { app_applied = app_applied.max(e.index); }
                    } else {
                        pending.push((num, cur_hs, pm)); wpending.push((num, w));
                        guard!("advance_append_async", n.advance_append_async(rd));
                    }
                    guard!("advance_apply", n.advance_apply());
                }
                Op::Notify(pick) => {
                    if pending.is_empty() { return None; }
                    let upto = pending[(pick % pending.len() as u64) as usize].0;
                    // the IO pipeline finished every Ready up to `upto`: their hard state is durable, their persisted messages go out
                    let mut rest = vec![];
                    for (num, hs, pm) in pending.drain(..) {
                        if num <= upto { durable = hs; if let Some(w) = check_msgs(&format!("Ready #{} persisted_messages()", num), &pm, durable, &mut sent) { return Some(w); }
                            if !panics_only() { if let Some(x) = note_told(&format!("Ready #{} persisted_messages()", num), &pm, &mut told) { return Some(x); } } } else { rest.push((num, hs, pm)); }
                    }
                    pending = rest;
                    let mut wrest = vec![]; for (num, pw) in wpending.drain(..) { if num <= upto { apply_writes(&image, &pw); } else { wrest.push((num, pw)); } } wpending = wrest;
                    guard!(format!("on_persist_ready({})", upto), n.on_persist_ready(upto));
                }
            }
            None
        })();
        if std::env::var("MON_TRACE").is_ok() { eprintln!("  #{} {:?} -> state {:?} term {} leader {} last {} commit {} persisted {} snap_req {}", k, op, n.raft.state, n.raft.term, n.raft.leader_id, n.raft.raft_log.last_index(), n.raft.raft_log.committed, n.raft.raft_log.persisted, n.raft.pending_request_snapshot); }
        if let Some(w) = r { if w.is_empty() { return None; } return Some(format!("op #{} {:?}: {}", k, op, w)); }
    }
    None
}

fn gen(rng: &mut Rng) -> (bool, Vec<Op>) {
    if rng.below(8) == 0 {
        // directed family: the lone voter leads, grows its log, is deposed by a heartbeat of a higher term, asks for a
        // snapshot, receives it, and then runs random persistence / timer steps
        let mut ops = vec![Op::Campaign, Op::ReadySync];
        for _ in 0..rng.below(3) { ops.push(Op::Propose); }
        ops.push(Op::ReadySync); ops.push(Op::Heartbeat(0, 1 + rng.below(2))); ops.push(if rng.below(2) == 0 { Op::ReadySync } else { Op::ReadyAsync });
        if rng.below(4) != 0 { ops.push(Op::Append); ops.push(Op::ReadySync); }
        if rng.below(4) != 0 { ops.push(Op::ReqSnap); ops.push(if rng.below(2) == 0 { Op::ReadySync } else { Op::ReadyAsync }); }
        ops.push(Op::Snap(rng.below(5)));
        for _ in 0..(1 + rng.below(6)) { ops.push(match rng.below(8) { 0 | 1 => Op::ReadyAsync, 2 => Op::ReadySync, 3 => Op::Notify(rng.below(4)), 4 => Op::Tick(25), 5 => Op::Crash(rng.below(3)), 6 => Op::Compact, _ => Op::Campaign }); }
        ops.push(Op::ReadyAsync);
        return (true, ops);
    }
    let n = 2 + rng.below(18); let mut ops = vec![];
    for _ in 0..n { ops.push(match rng.below(19) { 0 | 1 => Op::Campaign, 2 => Op::Tick(1 + rng.below(25)), 3 => Op::Propose, 4..=6 => Op::ReadyAsync, 7 => Op::ReadySync, 8 | 9 => Op::Notify(rng.below(8)),
        10 => Op::VoteReq(rng.below(2), 1 + rng.below(3), rng.below(3) == 0), 11 => Op::Heartbeat(rng.below(2), rng.below(3)), 12 | 13 => Op::VoteResp(rng.below(2), rng.below(4) == 0), 14 => Op::ReqSnap, 15 => Op::Append, 16 => Op::Crash(rng.below(3)), 17 => Op::Compact, _ => Op::Snap(rng.below(5)) }); }
    (rng.below(2) == 0, ops)
}

fn main() {
    let args: Vec<String> = std::env::args().collect();
    let mut seed = 1u64; let mut cases = 20000u64; let mut replay: Option<String> = None; let mut i = 1;
    while i < args.len() { match args[i].as_str() { "--seed" => { seed = args[i + 1].parse().unwrap(); i += 1 } "--cases" => { cases = args[i + 1].parse().unwrap(); i += 1 } "--replay" => { replay = Some(args[i + 1].clone()); i += 1 } "--prop" => { if args[i + 1] == "C20" { unsafe { PANICS_ONLY = true; } } i += 1 } _ => {} } i += 1; }
    if std::env::var("MON_VERBOSE").is_err() { std::panic::set_hook(Box::new(|_| {})); }
    let one = |seed: u64, upto: u64, only_last: bool| -> Option<(u64, bool, Vec<Op>, String)> {
        let mut rng = Rng(seed.wrapping_mul(0x9E3779B97F4A7C15) | 1);
        for k in 0..=upto { let (lone, ops) = gen(&mut rng); if only_last && k != upto { continue; } if let Some(w) = run(lone, &ops) { return Some((k, lone, ops, w)); } }
        None };
    if let Some(r) = replay {
        let nums: Vec<u64> = r.split(|c: char| !c.is_ascii_digit()).filter(|s| !s.is_empty()).map(|s| s.parse().unwrap()).collect();
        match one(nums[0], nums[1], true) { Some((k, lone, ops, w)) => { println!("{{\"violation\":{:?},\"input\":{{\"seed\":{},\"case\":{},\"lone_voter\":{},\"ops\":\"{:?}\"}}}}", w, nums[0], k, lone, ops); std::process::exit(1) } None => { println!("{{\"ok\":true}}"); return } }
    }
    match one(seed, cases - 1, false) { Some((k, lone, ops, w)) => { println!("{{\"violation\":{:?},\"input\":{{\"seed\":{},\"case\":{},\"lone_voter\":{},\"ops\":\"{:?}\"}}}}", w, seed, k, lone, ops); std::process::exit(1) } None => println!("{{\"ok\":true,\"cases\":{}}}", cases) }
}
