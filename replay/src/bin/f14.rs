// F14 (C14): "the persisted index never exceeds what stable storage holds with matching terms ... under every sequence of
// appends, truncating appends, ...".  RaftLog::append (public) truncating the log below `persisted` rewinds unstable.offset
// but leaves `persisted` where it was (only maybe_append lowers it, inline): persisted then names entries that stable
// storage holds with OTHER terms, and next_entries hands out unpersisted entries although applying them is switched off.
// (reproducer by a sub-agent, adapted)
use raft::eraftpb::Entry;
use raft::storage::{MemStorage, Storage};
use raft::{Config, RaftLog};
fn ent(index: u64, term: u64) -> Entry { let mut e = Entry::default(); e.index = index; e.term = term; e }
fn main() {
    let store = MemStorage::new();
    store.wl().append(&[ent(1, 1), ent(2, 1), ent(3, 1)]).unwrap();
    let mut log = RaftLog::new(store, slog::Logger::root(slog::Discard, slog::o!()), &Config::default());
    assert_eq!((log.committed, log.persisted), (0, 3));
    log.append(&[ent(2, 2), ent(3, 2)]);            // truncating append at index 2 (2 - 1 >= committed)
    println!("unstable.offset = {}, persisted = {}, log term(3) = {}, storage term(3) = {}", log.unstable().offset, log.persisted, log.term(3).unwrap(), log.store.term(3).unwrap());
    assert!(log.maybe_commit(3, 2));
    let next: Vec<u64> = log.next_entries(None).unwrap_or_default().iter().map(|e| e.index).collect();
    println!("next_entries hands out {:?}", next);
    if log.persisted >= log.unstable().offset || next != vec![1] {
        println!("VIOLATION C14: persisted = {} names entries that are not in stable storage with matching terms (they are unstable from {} on)", log.persisted, log.unstable().offset);
        std::process::exit(1);
    }
    println!("ok: persisted lowered to {}", log.persisted);
}
