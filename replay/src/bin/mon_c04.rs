// Replay monitor for C04 (leader side, "counting the leader itself only for what it has itself persisted"): a REAL
// single-voter RawNode<MemStorage> is driven with random proposals, synchronous (advance_append) and asynchronous
// (advance_append_async + on_persist_ready) Ready handling, and persistence notices that may be late, repeated or
// stale (a notice only ever says "everything up to Ready k is durable").  After every step the persisted index, the
// leader's own matched index and the commit index must not exceed the last entry of the Readys the application has
// reported as durable.  Witness finder + bounded replay; never proof.
// usage: mon_c04 [--seed N] [--cases K] [--replay '{"seed":S,"case":K}']
use raft::prelude::*;
use raft::storage::MemStorage;
use slog::{o, Discard, Logger};

struct Rng(u64);
impl Rng { fn next(&mut self) -> u64 { self.0 ^= self.0 << 13; self.0 ^= self.0 >> 7; self.0 ^= self.0 << 17; self.0 } fn below(&mut self, n: u64) -> u64 { if n == 0 { 0 } else { self.next() % n } } }

#[derive(Clone, Debug)]
enum Op { Propose(usize), ReadyAsync, ReadySync, Notify(u64), Tick }

macro_rules! guard { ($what:expr, $e:expr) => { match std::panic::catch_unwind(std::panic::AssertUnwindSafe(|| $e)) { Ok(v) => v, Err(_) => return Some(format!("{} panicked", $what)) } } }

fn run(ops: &[Op]) -> Option<String> {
    let logger = Logger::root(Discard, o!());
    let store = MemStorage::new_with_conf_state((vec![1], vec![]));
    let cfg = Config { id: 1, election_tick: 10, heartbeat_tick: 1, max_size_per_msg: 1 << 20, max_inflight_msgs: 16, ..Default::default() };
    let mut n = RawNode::new(&cfg, store.clone(), &logger).unwrap();
    guard!("campaign", n.campaign().unwrap());
    // number of each Ready handed out -> last entry index it carried (0: none)
    let mut last_of: Vec<(u64, u64)> = vec![];
    let mut notified: u64 = 0;     // highest Ready number the application has reported as durable
    let mut durable: u64 = 0;      // last entry index of the Readys with number <= notified
    for (k, op) in ops.iter().enumerate() {
        let r: Option<String> = (|| {
            match op {
                Op::Propose(sz) => { let _ = guard!("propose", n.propose(vec![], vec![9u8; *sz])); }
                Op::Tick => { guard!("tick", n.tick()); }
                Op::ReadyAsync | Op::ReadySync => {
                    if !guard!("has_ready", n.has_ready()) { return None; }
                    let mut rd = guard!("ready", n.ready());
                    let num = rd.number();
                    if !rd.entries().is_empty() { store.wl().append(rd.entries()).unwrap(); }
                    if let Some(hs) = rd.hs() { store.wl().set_hardstate(hs.clone()); }
                    last_of.push((num, rd.entries().last().map_or(0, |e| e.index)));
                    let _ = rd.take_messages(); let _ = rd.take_persisted_messages(); let _ = rd.take_committed_entries();
                    if matches!(op, Op::ReadySync) {
                        // synchronous handling: everything up to this Ready is durable before advance_append returns
                        notified = notified.max(num);
                        for (nn, li) in &last_of { if *nn <= notified && *li > durable { durable = *li; } }
                        let mut light = guard!("advance_append", n.advance_append(rd));
                        if let Some(c) = light.commit_index() { store.wl().mut_hard_state().set_commit(c); }
                        let _ = light.take_messages(); let _ = light.take_committed_entries();
                    } else {
                        guard!("advance_append_async", n.advance_append_async(rd));
                    }
                    guard!("advance_apply", n.advance_apply());
                }
                Op::Notify(pick) => {
                    // any number up to the newest Ready whose write has been issued; older or repeated notices are legal no-ops
                    let max = last_of.last().map_or(0, |x| x.0);
                    if max == 0 { return None; }
                    let num = 1 + pick % max;
                    notified = notified.max(num);
                    for (nn, li) in &last_of { if *nn <= notified && *li > durable { durable = *li; } }
                    guard!(format!("on_persist_ready({})", num), n.on_persist_ready(num));
                }
            }
            None
        })();
        if let Some(w) = r { return Some(format!("op #{} {:?}: {}", k, op, w)); }
        let log = &n.raft.raft_log;
        let own = n.raft.prs().get(1).map_or(0, |p| p.matched);
        if log.persisted > durable { return Some(format!("after op #{} {:?}: persisted index {} but the application has only reported Readys up to #{} as durable, whose last entry is {}", k, op, log.persisted, notified, durable)); }
        if own > durable { return Some(format!("after op #{} {:?}: the leader counts itself at index {} but only {} is durable (Readys up to #{})", k, op, own, durable, notified)); }
        if log.committed > durable { return Some(format!("after op #{} {:?}: commit index {} exceeds the only voter's durable index {} (Readys up to #{})", k, op, log.committed, durable, notified)); }
    }
    None
}

fn gen(rng: &mut Rng) -> Vec<Op> {
    let n = 2 + rng.below(16); let mut ops = vec![];
    for _ in 0..n { ops.push(match rng.below(10) { 0..=2 => Op::Propose(rng.below(40) as usize), 3..=5 => Op::ReadyAsync, 6 => Op::ReadySync, 7 | 8 => Op::Notify(rng.below(64)), _ => Op::Tick }); }
    ops
}

fn main() {
    let args: Vec<String> = std::env::args().collect();
    let mut seed = 1u64; let mut cases = 20000u64; let mut replay: Option<String> = None; let mut i = 1;
    while i < args.len() { match args[i].as_str() { "--seed" => { seed = args[i + 1].parse().unwrap(); i += 1 } "--cases" => { cases = args[i + 1].parse().unwrap(); i += 1 } "--replay" => { replay = Some(args[i + 1].clone()); i += 1 } _ => {} } i += 1; }
    std::panic::set_hook(Box::new(|_| {}));
    let one = |seed: u64, upto: u64, only_last: bool| -> Option<(u64, Vec<Op>, String)> {
        let mut rng = Rng(seed.wrapping_mul(0x9E3779B97F4A7C15) | 1);
        for k in 0..=upto { let ops = gen(&mut rng); if only_last && k != upto { continue; } if let Some(w) = run(&ops) { return Some((k, ops, w)); } }
        None };
    if let Some(r) = replay {
        let nums: Vec<u64> = r.split(|c: char| !c.is_ascii_digit()).filter(|s| !s.is_empty()).map(|s| s.parse().unwrap()).collect();
        match one(nums[0], nums[1], true) { Some((k, ops, w)) => { println!("{{\"violation\":{:?},\"input\":{{\"seed\":{},\"case\":{},\"ops\":\"{:?}\"}}}}", w, nums[0], k, ops); std::process::exit(1) } None => { println!("{{\"ok\":true}}"); return } }
    }
    match one(seed, cases - 1, false) { Some((k, ops, w)) => { println!("{{\"violation\":{:?},\"input\":{{\"seed\":{},\"case\":{},\"ops\":\"{:?}\"}}}}", w, seed, k, ops); std::process::exit(1) } None => println!("{{\"ok\":true,\"cases\":{}}}", cases) }
}
