// Replay monitor for C14 (also used for the log-related obligations of C05 / C13 / C07): the REAL RaftLog<MemStorage>
// of /repo vs a plain sequence model under random contract-abiding sequences of leader appends, follower
// maybe_append (with conflicts), commits, stabilisations, persistence notices, apply, storage compaction and
// snapshot restore.  After every step first/last/term/slice/entries/conflict search/up-to-date are compared and
// applied <= committed <= last, persisted-vs-storage are checked.  Witness finder + bounded replay; never proof.
// usage: mon_c14 [--seed N] [--cases K] [--replay '{"seed":S,"case":K}']
use raft::eraftpb::{ConfState, Entry, Snapshot};
use raft::storage::MemStorage;
use raft::{Config, Error, GetEntriesContext, RaftLog, Storage, StorageError};
use slog::{o, Discard, Logger};

struct Rng(u64);
impl Rng { fn next(&mut self) -> u64 { self.0 ^= self.0 << 13; self.0 ^= self.0 >> 7; self.0 ^= self.0 << 17; self.0 } fn below(&mut self, n: u64) -> u64 { if n == 0 { 0 } else { self.next() % n } } }
fn ent(i: u64, t: u64, sz: usize) -> Entry { let mut e = Entry::default(); e.index = i; e.term = t; e.data = vec![5u8; sz].into(); e }
fn esize(e: &Entry) -> u64 { use protobuf::Message; e.compute_size() as u64 }

#[derive(Clone, Debug)]
enum Op {
    Append(Vec<(u64, usize)>),                    // leader append at last+1: (term bump, payload size)
    MaybeAppend(u64, bool, u64, Vec<(u64, usize)>, u64), // (prev index pick, corrupt prev term, keep-count, new entries, leader commit pick)
    Commit(u64),
    Stabilize,
    Persist(u64),
    Apply(u64),
    Compact(u64),
    Restore(u64, u64),
    StableSnap,
}

// the plain sequence model: snapshot point (si, st) followed by contiguous entries si+1..
// `bt_known`: the term at the snapshot point is known only if that point is a snapshot of the storage (a storage
// compaction in the middle of the log forgets it: MemStorage answers Compacted there, and so does RaftLog::term)
struct Model { si: u64, st: u64, bt_known: bool, stor_last: u64, ents: Vec<Entry>, committed: u64, applied: u64, pending_snap: Option<u64> }
impl Model {
    fn first(&self) -> u64 { self.si + 1 }
    fn last(&self) -> u64 { self.si + self.ents.len() as u64 }
    fn term(&self, i: u64) -> u64 { if i == self.si { self.st } else if i < self.si || i > self.last() { 0 } else { self.ents[(i - self.si - 1) as usize].term } }
    // what RaftLog::term answers: 0 outside [first-1, last], an error at a forgotten boundary
    fn rterm(&self, i: u64) -> Result<u64, ()> { if i + 1 < self.first() || i > self.last() { Ok(0) } else if i == self.si && !self.bt_known { Err(()) } else { Ok(self.term(i)) } }
    fn range(&self, lo: u64, hi: u64) -> Vec<Entry> { self.ents[(lo - self.si - 1) as usize..(hi - self.si - 1) as usize].to_vec() }
}
fn limit(full: &[Entry], max: Option<u64>) -> Vec<Entry> {
    let mut want = full.to_vec();
    if want.len() > 1 { if let Some(mx) = max { if mx != u64::MAX { let mut size = 0u64; let mut n = 0; for e in full { size += esize(e); if n > 0 && size > mx { break; } n += 1; } want.truncate(n); } } }
    want
}
fn idxs(v: &[Entry]) -> Vec<(u64, u64)> { v.iter().map(|e| (e.index, e.term)).collect() }
fn err_name(e: &Error) -> &'static str { match e { Error::Store(StorageError::Compacted) => "Compacted", Error::Store(StorageError::Unavailable) => "Unavailable", _ => "other" } }

macro_rules! guard { ($what:expr, $e:expr) => { match std::panic::catch_unwind(std::panic::AssertUnwindSafe(|| $e)) { Ok(v) => v, Err(_) => return Some(format!("{} panicked", $what)) } } }

fn compare(log: &RaftLog<MemStorage>, m: &Model, rng: &mut Rng) -> Option<String> {
    let (f, l) = (guard!("first_index", log.first_index()), guard!("last_index", log.last_index()));
    if f != m.first() || l != m.last() { return Some(format!("first/last = {}/{} but the sequence model says {}/{}", f, l, m.first(), m.last())); }
    if !(log.applied <= log.committed && log.committed <= l) { return Some(format!("applied {} <= committed {} <= last {} does not hold", log.applied, log.committed, l)); }
    if log.committed != m.committed || log.applied != m.applied { return Some(format!("committed/applied = {}/{} but the model says {}/{}", log.committed, log.applied, m.committed, m.applied)); }
    // persisted never exceeds what stable storage holds with matching terms
    let sl = log.store.last_index().unwrap();
    if log.persisted > sl { return Some(format!("persisted {} exceeds the stable storage's last index {}", log.persisted, sl)); }
    if log.persisted >= m.first() && m.pending_snap.is_none() {
        let st = log.store.term(log.persisted).ok();
        if st != Some(m.term(log.persisted)) { return Some(format!("persisted {} but stable storage holds term {:?} there and the log holds term {}", log.persisted, st, m.term(log.persisted))); }
    }
    for i in m.si.saturating_sub(2)..=m.last() + 2 {
        let got = guard!(format!("term({})", i), log.term(i));
        let want = m.rterm(i);
        match (&got, want) { (Ok(t), Ok(w)) if *t == w => {}, (Err(e), Err(())) if err_name(e) == "Compacted" => {}, _ => return Some(format!("term({}) = {:?} but the sequence model says {:?} (first {}, last {})", i, got, want, m.first(), m.last())) }
        if let Ok(w) = want { if i >= m.first() && i <= m.last() { for t in [w, w + 1] { let mt = guard!("match_term", log.match_term(i, t)); if mt != (t == w) { return Some(format!("match_term({}, {}) = {} but the log holds term {}", i, t, mt, w)); } } } }
    }
    for _ in 0..5 {
        let lo = m.first() + rng.below(m.last() + 2 - m.first());
        let hi = (lo + rng.below(m.last() + 2 - lo)).min(m.last() + 1);
        let max: Option<u64> = match rng.below(4) { 0 => None, 1 => Some(rng.below(40)), 2 => Some(rng.below(400)), _ => Some(u64::MAX) };
        let got = guard!(format!("slice({}, {}, {:?})", lo, hi, max), log.slice(lo, hi, max, GetEntriesContext::empty(false)));
        let want = limit(&m.range(lo, hi), max);
        match got { Ok(v) => if v != want { return Some(format!("slice({}, {}, {:?}) returned (index, term) {:?} but the maximal prefix of the sequence model within the limit is {:?}", lo, hi, max, idxs(&v), idxs(&want))); },
                    Err(e) => return Some(format!("slice({}, {}, {:?}) failed: {:?} (first {}, last {})", lo, hi, max, e, m.first(), m.last())) }
        if lo <= m.last() {
            let got = guard!(format!("entries({}, {:?})", lo, max), log.entries(lo, max, GetEntriesContext::empty(false)));
            let want = limit(&m.range(lo, m.last() + 1), max);
            match got { Ok(v) => if v != want { return Some(format!("entries({}, {:?}) returned {:?} but the sequence model says {:?}", lo, max, idxs(&v), idxs(&want))); }, Err(e) => return Some(format!("entries({}, {:?}) failed: {:?}", lo, max, e)) }
        }
    }
    if m.first() > 1 {
        let lo = m.first() - 1;
        match guard!("slice below first", log.slice(lo, lo + 1, None, GetEntriesContext::empty(false))) { Err(ref e) if err_name(e) == "Compacted" => {} other => return Some(format!("slice({}, {}) below first index {} did not answer Compacted: {:?}", lo, lo + 1, m.first(), other.map(|v| idxs(&v)))) }
    }
    // up-to-date comparison against (last index, last term)
    let (ll, lt) = (m.last(), m.term(m.last()));
    for (i, t) in [(ll, lt), (ll + 1, lt), (ll.saturating_sub(1), lt), (ll, lt + 1), (ll + 5, lt.saturating_sub(1)), (0, lt + 1)] {
        let got = guard!("is_up_to_date", log.is_up_to_date(i, t));
        let want = t > lt || (t == lt && i >= ll);
        if got != want { return Some(format!("is_up_to_date({}, {}) = {} with last (index, term) = ({}, {})", i, t, got, ll, lt)); }
    }
    // conflict search by term: largest index <= min(index, last) whose term is <= term (or the floor where terms are unknown)
    {
        let idx = m.si + rng.below(m.ents.len() as u64 + 3); let t = rng.below(m.term(m.last()) + 2);
        let (gi, gt) = guard!("find_conflict_by_term", log.find_conflict_by_term(idx, t));
        if idx <= m.last() {
            // RaftLog::term answers 0 below the snapshot point, so the search ends there at the latest; at a forgotten
            // boundary the search stops with no term
            let mut i = idx; while let Ok(x) = m.rterm(i) { if x > t { i -= 1 } else { break } }
            let wt = m.rterm(i).ok();
            if gi != i || gt != wt { return Some(format!("find_conflict_by_term({}, {}) = ({}, {:?}) but the sequence model says ({}, {:?})", idx, t, gi, gt, i, wt)); }
        }
    }
    let all = guard!("all_entries", log.all_entries());
    if all != m.ents { return Some(format!("all_entries() = {:?} but the sequence model holds {:?}", idxs(&all), idxs(&m.ents))); }
    None
}

fn run(ops: &[Op], rng: &mut Rng) -> Option<String> {
    let mut cs = ConfState::default(); cs.voters = vec![1, 2, 3];
    let store = MemStorage::new_with_conf_state(cs);
    let logger = Logger::root(Discard, o!());
    let mut log = RaftLog::new(store, logger, &Config::default());
    let mut m = Model { si: 0, st: 0, bt_known: true, stor_last: 0, ents: vec![], committed: 0, applied: 0, pending_snap: None };
    for (k, op) in ops.iter().enumerate() {
        let r: Option<String> = (|| {
        match op {
            Op::Append(items) => {
                let mut t = m.term(m.last()).max(1); let mut v = vec![];
                for (j, (dt, sz)) in items.iter().enumerate() { t += dt; v.push(ent(m.last() + 1 + j as u64, t, *sz)); }
                if v.is_empty() { return None; }
                let li = guard!("append", log.append(&v));
                m.ents.extend(v);
                if li != m.last() { return Some(format!("append returned last index {} but the model says {}", li, m.last())); }
            }
            Op::MaybeAppend(pick, corrupt, keep, items, cpick) => {
                // prev index anywhere in [committed, last]; entries agree with the log for `keep` positions (and always at
                // or below the commit index), then diverge with higher terms
                let prev = m.committed + pick % (m.last() - m.committed + 1);
                let prev_term = if *corrupt { m.term(prev) + 1 } else { m.term(prev) };
                let mut v = vec![]; let mut t = 0; let mut diverged = false;
                for (j, (dt, sz)) in items.iter().enumerate() {
                    let i = prev + 1 + j as u64;
                    if !diverged && i <= m.last() && (j as u64) < *keep { v.push(m.ents[(i - m.si - 1) as usize].clone()); t = m.term(i); continue; }
                    if !diverged { diverged = true; t = t.max(m.term(m.last())).max(m.term(prev)).max(1) + 1; }
                    t += dt; v.push(ent(i, t, *sz));
                }
                let lc = m.committed + cpick % 4;
                let got = guard!("maybe_append", log.maybe_append(prev, prev_term, lc, &v));
                if *corrupt || m.rterm(prev).is_err() {
                    if got.is_some() { return Some(format!("maybe_append({}, {}) accepted although the log does not hold that (index, term)", prev, prev_term)); }
                    return None;
                }
                if false {
                    if got.is_some() && *corrupt { return Some(format!("maybe_append({}, {}) accepted although the log holds term {} at {}", prev, prev_term, m.term(prev), prev)); }
                    return None;
                }
                let last_new = prev + v.len() as u64;
                let mut conflict = 0;
                for e in &v { if e.index > m.last() || m.term(e.index) != e.term { conflict = e.index; break; } }
                if conflict != 0 { m.ents.truncate((conflict - m.si - 1) as usize); m.ents.extend(v[(conflict - prev - 1) as usize..].iter().cloned()); }
                let nc = lc.min(last_new); if nc > m.committed { m.committed = nc; }
                match got { Some((c, l)) => if c != conflict || l != last_new { return Some(format!("maybe_append returned (conflict {}, last {}) but the model says ({}, {})", c, l, conflict, last_new)); }, None => return Some(format!("maybe_append({}, {}) rejected although the log holds that (index, term)", prev, prev_term)) }
            }
            Op::Commit(c) => {
                let c = m.committed + c % (m.last() - m.committed + 1);
                let t = m.term(c);
                let got = guard!("maybe_commit", log.maybe_commit(c, t));
                let want = c > m.committed; if want { m.committed = c; }
                if got != want { return Some(format!("maybe_commit({}, {}) = {} but the model says {}", c, t, got, want)); }
                // a wrong term never commits
                if m.last() > m.committed { let c2 = m.last(); if guard!("maybe_commit", log.maybe_commit(c2, m.term(c2) + 1)) { return Some(format!("maybe_commit({}, {}) moved the commit index although the log holds term {} there", c2, m.term(c2) + 1, m.term(c2))); } }
            }
            Op::Stabilize => {
                if m.pending_snap.is_some() { return None; }
                let u: Vec<Entry> = log.unstable_entries().to_vec();
                if u.is_empty() { return None; }
                log.store.wl().append(&u).unwrap();
                let le = u.last().unwrap();
                guard!("stable_entries", log.stable_entries(le.index, le.term));
                m.stor_last = le.index;
            }
            Op::Persist(p) => {
                let i = m.si + p % (m.ents.len() as u64 + 1);
                let t = m.term(i);
                let before = log.persisted;
                let fu = match log.unstable_snapshot() { Some(s) => s.get_metadata().index, None => log.unstable.offset };
                let got = guard!("maybe_persist", log.maybe_persist(i, t));
                let want = i > before && i < fu && log.store.term(i).ok() == Some(t);
                if got != want { return Some(format!("maybe_persist({}, {}) = {} but the rule (above persisted {}, below first unwritten {}, term held by storage) says {}", i, t, got, before, fu, want)); }
            }
            Op::Apply(a) => {
                let hi = m.committed.min(log.persisted.max(m.applied));
                if hi <= m.applied { return None; }
                let a = m.applied + 1 + a % (hi - m.applied);
                guard!("applied_to", log.applied_to(a)); m.applied = a;
            }
            Op::Compact(c) => {
                // storage compaction never goes beyond applied and only covers what storage holds
                let sl = log.store.last_index().unwrap(); let sf = log.store.first_index().unwrap();
                let hi = m.applied.min(sl).min(log.unstable.offset - 1);
                if m.pending_snap.is_some() || hi < sf { return None; }
                let c = sf + c % (hi - sf + 1);
                if c <= m.first() { return None; }
                let t = m.term(c - 1);
                log.store.wl().compact(c).unwrap();
                let keep = m.range(c, m.last() + 1); m.ents = keep; m.si = c - 1; m.st = t; m.bt_known = true;   // Storage::term: the term of the entry before first_index is retained (fix 7cb0ad5)
            }
            Op::Restore(di, t) => {
                if m.pending_snap.is_some() { return None; }
                let i = m.committed + 1 + di % 6; let t = m.term(m.last()).max(1) + t % 3;
                let mut sn = Snapshot::default(); sn.mut_metadata().index = i; sn.mut_metadata().term = t; let mut c2 = ConfState::default(); c2.voters = vec![1, 2, 3]; sn.mut_metadata().set_conf_state(c2);
                guard!("restore", log.restore(sn));
                m.si = i; m.st = t; m.ents.clear(); m.committed = i; m.pending_snap = Some(i); m.bt_known = true;
            }
            Op::StableSnap => {
                let Some(i) = m.pending_snap else { return None; };
                let sn = log.unstable_snapshot().clone().unwrap();
                log.store.wl().apply_snapshot(sn).unwrap();
                // entries appended on top of the pending snapshot are written together with it
                let u: Vec<Entry> = log.unstable_entries().to_vec();
                guard!("stable_snap", log.stable_snap(i));
                m.pending_snap = None; m.stor_last = i;
                if !u.is_empty() { log.store.wl().append(&u).unwrap(); let le = u.last().unwrap(); guard!("stable_entries", log.stable_entries(le.index, le.term)); m.stor_last = le.index; }
                guard!("maybe_persist_snap", log.maybe_persist_snap(i));
                if m.applied < i { guard!("applied_to", log.applied_to(i)); m.applied = i; }
            }
        }
        None })();
        if let Some(w) = r { return Some(format!("op #{} {:?}: {}", k, op, w)); }
        if let Some(w) = compare(&log, &m, rng) { return Some(format!("after op #{} {:?}: {}", k, op, w)); }
    }
    None
}

fn gen(rng: &mut Rng) -> Vec<Op> {
    let n = 1 + rng.below(14); let mut ops = vec![];
    let items = |rng: &mut Rng| -> Vec<(u64, usize)> { (0..1 + rng.below(5)).map(|_| (if rng.below(4) == 0 { 1 } else { 0 }, rng.below(50) as usize)).collect() };
    for _ in 0..n {
        ops.push(match rng.below(16) {
            0..=3 => Op::Append(items(rng)),
            4..=6 => Op::MaybeAppend(rng.below(16), rng.below(7) == 0, rng.below(5), items(rng), rng.below(8)),
            7 | 8 => Op::Commit(rng.below(16)),
            9 | 10 => Op::Stabilize,
            11 => Op::Persist(rng.below(16)),
            12 => Op::Apply(rng.below(16)),
            13 => Op::Compact(rng.below(16)),
            14 => if rng.below(3) == 0 { Op::Restore(rng.below(16), rng.below(4)) } else { Op::Persist(rng.below(16)) },
            _ => Op::StableSnap,
        });
    }
    ops
}

fn main() {
    let args: Vec<String> = std::env::args().collect();
    let mut seed = 1u64; let mut cases = 20000u64; let mut replay: Option<String> = None; let mut i = 1;
    while i < args.len() { match args[i].as_str() { "--seed" => { seed = args[i + 1].parse().unwrap(); i += 1 } "--cases" => { cases = args[i + 1].parse().unwrap(); i += 1 } "--replay" => { replay = Some(args[i + 1].clone()); i += 1 } _ => {} } i += 1; }
    std::panic::set_hook(Box::new(|_| {}));
    let one = |seed: u64, upto: u64, only_last: bool| -> Option<(u64, Vec<Op>, String)> {
        let mut rng = Rng(seed.wrapping_mul(0x9E3779B97F4A7C15) | 1);
        for k in 0..=upto { let ops = gen(&mut rng); let mut r2 = Rng(seed ^ k.wrapping_mul(0x2545F4914F6CDD1D) | 1); if only_last && k != upto { continue; } if let Some(w) = run(&ops, &mut r2) { return Some((k, ops, w)); } }
        None };
    if let Some(r) = replay {
        let nums: Vec<u64> = r.split(|c: char| !c.is_ascii_digit()).filter(|s| !s.is_empty()).map(|s| s.parse().unwrap()).collect();
        match one(nums[0], nums[1], true) { Some((k, ops, w)) => { println!("{{\"violation\":{:?},\"input\":{{\"seed\":{},\"case\":{},\"ops\":\"{:?}\"}}}}", w, nums[0], k, ops); std::process::exit(1) } None => { println!("{{\"ok\":true}}"); return } }
    }
    match one(seed, cases - 1, false) { Some((k, ops, w)) => { println!("{{\"violation\":{:?},\"input\":{{\"seed\":{},\"case\":{},\"ops\":\"{:?}\"}}}}", w, seed, k, ops); std::process::exit(1) } None => println!("{{\"ok\":true,\"cases\":{}}}", cases) }
}
