"""Run Verus on a generated file and map its diagnostics back to obligations."""
import json
import os
import re
import subprocess
import time

VERIF_FAIL = re.compile(
    r"(postcondition not satisfied|precondition not satisfied|assertion failed|"
    r"invariant not satisfied|loop ensures|not satisfied at|possible arithmetic underflow/overflow|"
    r"possible division by zero|possible bit shift|could not prove termination|decreases not satisfied|"
    r"cannot show invariant|assertion not satisfied|failed this|unable to prove|might not|"
    r"function body check: not all errors|not all errors may have been reported|"
    r"call to nonstatic function might unwind|possible panic|postcondition|precondition)", re.I)
UNDECIDED = re.compile(r"(rlimit|resource limit|timed out|timeout|out of memory|solver)", re.I)
SUMMARY = re.compile(r"aborting due to|previous error")


def run_verus(path, rlimit=None, seed=None, threads=None, verify_function=None, timeout=900, extra=None, twin=False):
    cmd = ["verus", path, "--output-json", "--time-expanded", "--error-format=json", "--multiple-errors", "2" if twin else "10",
           "--triggers-mode", "silent"]
    if rlimit:
        cmd += ["--rlimit", str(rlimit)]
    if seed is not None:
        cmd += ["--smt-option", "smt.random_seed=%d" % seed, "--smt-option", "sat.random_seed=%d" % seed]
    if threads:
        cmd += ["--num-threads", str(threads)]
    if extra:
        cmd += extra
    t0 = time.time()
    try:
        p = subprocess.run(cmd, stdout=subprocess.PIPE, stderr=subprocess.PIPE, timeout=timeout,
                           cwd=os.path.dirname(path) or ".")
        out, err, rc = p.stdout.decode(errors="replace"), p.stderr.decode(errors="replace"), p.returncode
    except subprocess.TimeoutExpired as e:
        return {"status": "undecided", "reason": "verus timed out after %ds" % timeout, "cmd": " ".join(cmd),
                "wall_s": time.time() - t0, "diags": [], "funcs": {}, "verified": 0, "errors": 0}
    wall = time.time() - t0
    res = {"cmd": " ".join(cmd), "wall_s": wall, "rc": rc, "diags": [], "funcs": {}, "verified": 0, "errors": 0,
           "status": "ok", "reason": "", "smt_ms": 0, "rlimit_total": 0}
    js = None
    try:
        js = json.loads(out)
    except Exception:
        # sometimes non-JSON lines precede the JSON object
        m = out.find("{")
        try:
            js = json.loads(out[m:]) if m >= 0 else None
        except Exception:
            js = None
    for line in err.split("\n"):
        line = line.strip()
        if not line.startswith("{"):
            continue
        try:
            d = json.loads(line)
        except Exception:
            continue
        if d.get("$message_type") != "diagnostic":
            continue
        if d.get("level") not in ("error",):
            continue
        if SUMMARY.search(d.get("message", "")):
            continue
        res["diags"].append(d)
    if js is None or "verification-results" not in js:
        res["status"] = "undecided"
        res["reason"] = "verus produced no verification results (front-end error?)"
        res["stderr_tail"] = err[-3000:]
        return res
    vr = js["verification-results"]
    res["verified"] = vr.get("verified", 0)
    res["errors"] = vr.get("errors", 0)
    if vr.get("encountered-vir-error"):
        res["status"] = "undecided"
        res["reason"] = "verus front-end (VIR) error"
    try:
        smt = js["times-ms"]["smt"]
        res["smt_ms"] = smt.get("total", 0)
        for mt in smt.get("smt-run-module-times", []):
            for fb in mt.get("function-breakdown", []):
                res["funcs"][fb["function"]] = {"ms": fb.get("time", 0), "rlimit": fb.get("rlimit", 0),
                                                "success": fb.get("success", False), "mode": fb.get("mode:", "")}
                res["rlimit_total"] += fb.get("rlimit", 0)
        res["total_ms"] = js["times-ms"].get("total", 0)
    except Exception:
        pass
    res["verus_version"] = js.get("verus", {}).get("version", "")
    # classify diagnostics
    for d in res["diags"]:
        msg = d.get("message", "")
        if UNDECIDED.search(msg):
            d["_class"] = "undecided"
        elif VERIF_FAIL.search(msg):
            d["_class"] = "fail"
        else:
            d["_class"] = "frontend"
    if any(d["_class"] == "frontend" for d in res["diags"]):
        res["status"] = "undecided"
        res["reason"] = "verus front-end error: " + "; ".join(
            d["message"][:200] for d in res["diags"] if d["_class"] == "frontend")[:1500]
    elif any(d["_class"] == "undecided" for d in res["diags"]) and res["status"] == "ok" and not twin:
        res["status"] = "undecided"
        res["reason"] = "solver resource limit: " + "; ".join(
            d["message"][:120] for d in res["diags"] if d["_class"] == "undecided")[:800]
    if res["status"] == "ok" and not res["diags"] and rc != 0:
        res["status"] = "undecided"
        res["reason"] = "verus exited %d without diagnostics" % rc
        res["stderr_tail"] = err[-3000:]
    return res


def locate(diag, fn_records):
    """Map a diagnostic to (fn record, clause record or None, description)."""
    spans = diag.get("spans", [])
    lines = []
    for s in spans:
        lines.append((s.get("line_start"), s.get("line_end"), s.get("label") or "", s.get("is_primary")))
    clause = None
    fn = None
    # 1. a span lying on a recorded clause of some function -> that clause (postcondition / invariant / precondition)
    for (a, b, label, prim) in lines:
        for fr in fn_records:
            for c in fr["clauses"]:
                if c.get("lines") and c["lines"][0] <= a <= c["lines"][1]:
                    if c["kind"] == "requires":
                        continue  # failed precondition of a callee: the obligation belongs to the caller
                    clause, fn = c, fr
    # 2. the function containing the primary span (or any span in a body)
    if fn is None:
        cands = []
        for (a, b, label, prim) in lines:
            for fr in fn_records:
                if fr.get("contract_only"):
                    continue
                bl = fr.get("body_lines") or fr["lines"]
                if bl[0] <= a <= bl[1]:
                    cands.append((0 if prim else 1, fr))
        if cands:
            cands.sort(key=lambda x: x[0])
            fn = cands[0][1]
    callee_req = None
    for (a, b, label, prim) in lines:
        for fr in fn_records:
            for c in fr["clauses"]:
                if c["kind"] == "requires" and c.get("lines") and c["lines"][0] <= a <= c["lines"][1]:
                    callee_req = (fr["name"], c)
    return fn, clause, callee_req
