"""Minimal Rust tokenizer and item finder (stdlib only).

Purpose: locate struct/enum/fn/impl items of the real source files in /repo by
brace matching, so that their text can be copied verbatim into the file that
is handed to the verifier.  Nothing here interprets Rust beyond tokens,
delimiters and item headers.
"""
import re
from collections import namedtuple

Tok = namedtuple("Tok", "kind text start end")

_IDENT = re.compile(r"[A-Za-z_][A-Za-z0-9_]*")
_NUM = re.compile(r"[0-9][0-9A-Za-z_]*(\.[0-9][0-9A-Za-z_]*)?")
_WS = re.compile(r"\s+")
_PUNCT3 = ("..=", "...")
_PUNCT2 = ("->", "=>", "::", "..")


class LexError(Exception):
    pass


def tokenize(src):
    """Return the list of tokens of `src`, including whitespace and comments."""
    toks = []
    i, n = 0, len(src)
    while i < n:
        c = src[i]
        m = _WS.match(src, i)
        if m:
            toks.append(Tok("ws", m.group(), i, m.end()))
            i = m.end()
            continue
        if src.startswith("//", i):
            j = src.find("\n", i)
            j = n if j < 0 else j
            toks.append(Tok("comment", src[i:j], i, j))
            i = j
            continue
        if src.startswith("/*", i):
            depth, j = 1, i + 2
            while j < n and depth:
                if src.startswith("/*", j):
                    depth += 1
                    j += 2
                elif src.startswith("*/", j):
                    depth -= 1
                    j += 2
                else:
                    j += 1
            toks.append(Tok("comment", src[i:j], i, j))
            i = j
            continue
        # raw strings / byte strings
        m = re.compile(r'(b|c)?r(#*)"').match(src, i)
        if m:
            hashes = m.group(2)
            close = '"' + hashes
            j = src.find(close, m.end())
            if j < 0:
                raise LexError("unterminated raw string at %d" % i)
            j += len(close)
            toks.append(Tok("str", src[i:j], i, j))
            i = j
            continue
        if c == '"' or (c in "bc" and src.startswith('"', i + 1)):
            j = i + (2 if c != '"' else 1)
            while j < n and src[j] != '"':
                j += 2 if src[j] == "\\" else 1
            j += 1
            toks.append(Tok("str", src[i:j], i, j))
            i = j
            continue
        if c == "'" or (c == "b" and src.startswith("'", i + 1)):
            k = i + (1 if c == "b" else 0)
            # char literal or lifetime
            m = re.compile(r"'(\\.[^']*|[^\\'])'").match(src, k)
            if m:
                toks.append(Tok("char", src[i:m.end()], i, m.end()))
                i = m.end()
                continue
            m = re.compile(r"'[A-Za-z_][A-Za-z0-9_]*").match(src, k)
            if m and c == "'":
                toks.append(Tok("lifetime", m.group(), i, m.end()))
                i = m.end()
                continue
            raise LexError("bad quote at %d" % i)
        m = _IDENT.match(src, i)
        if m:
            # r#ident
            toks.append(Tok("ident", m.group(), i, m.end()))
            i = m.end()
            continue
        m = _NUM.match(src, i)
        if m:
            # avoid swallowing `0..n` as a float
            t = m.group()
            if ".." in src[i:m.end() + 1] and "." in t:
                t = t.split(".")[0]
            if "." in t and src.startswith("..", i + t.index(".")):
                t = t.split(".")[0]
            # method call on integer literal `1.max(2)`
            if "." in t and re.match(r"[A-Za-z_]", t.split(".", 1)[1]):
                t = t.split(".")[0]
            toks.append(Tok("num", t, i, i + len(t)))
            i += len(t)
            continue
        for p in _PUNCT3 + _PUNCT2:
            if src.startswith(p, i):
                toks.append(Tok("punct", p, i, i + len(p)))
                i += len(p)
                break
        else:
            toks.append(Tok("punct", c, i, i + 1))
            i += 1
    return toks


def sig(toks):
    """Indices of significant tokens (no whitespace / comments)."""
    return [k for k, t in enumerate(toks) if t.kind not in ("ws", "comment")]


OPEN = {"(": ")", "[": "]", "{": "}"}
CLOSE = {v: k for k, v in OPEN.items()}


def match_close(toks, k):
    """toks[k] is an opening delimiter; return index of its matching close."""
    depth = 0
    for j in range(k, len(toks)):
        t = toks[j]
        if t.kind != "punct":
            continue
        if t.text in OPEN:
            depth += 1
        elif t.text in CLOSE:
            depth -= 1
            if depth == 0:
                return j
    raise LexError("unbalanced delimiter at offset %d" % toks[k].start)


def match_open(toks, k):
    """toks[k] is a closing delimiter; return index of its matching open."""
    depth = 0
    for j in range(k, -1, -1):
        t = toks[j]
        if t.kind != "punct":
            continue
        if t.text in CLOSE:
            depth += 1
        elif t.text in OPEN:
            depth -= 1
            if depth == 0:
                return j
    raise LexError("unbalanced delimiter at offset %d" % toks[k].start)


def match_angle(toks, k):
    """toks[k] is '<' opening a generic list; return index of matching '>'."""
    depth = 0
    j = k
    while j < len(toks):
        t = toks[j]
        if t.kind == "punct":
            if t.text == "<":
                depth += 1
            elif t.text == ">":
                depth -= 1
                if depth == 0:
                    return j
            elif t.text in OPEN:
                j = match_close(toks, j)
        j += 1
    raise LexError("unbalanced angle at offset %d" % toks[k].start)


Item = namedtuple("Item", "kind name impl_of trait_of start hdr_start body_open body_close end attrs_text path")
# start: offset of first attribute/doc comment; hdr_start: offset of `pub`/keyword;
# body_open/body_close: offsets of `{`/`}` (or None); end: offset past the item.

_ITEM_KW = {"fn", "struct", "enum", "impl", "trait", "mod", "const", "static", "type", "use", "union", "macro_rules", "extern"}
_MODIFIERS = {"pub", "unsafe", "async", "default", "extern", "const"}


def _skip_trivia(toks, k):
    while k < len(toks) and toks[k].kind in ("ws", "comment"):
        k += 1
    return k


def items(src, toks=None, lo=0, hi=None, path=()):
    """Yield the items found in token range [lo, hi) at nesting level 0,
    recursing into impl/trait/mod bodies (impl_of / trait_of / path tell where)."""
    if toks is None:
        toks = tokenize(src)
    if hi is None:
        hi = len(toks)
    k = lo
    while k < hi:
        k = _skip_trivia(toks, k)
        if k >= hi:
            break
        item_first = k
        # leading doc comments were skipped as trivia: walk back to include them
        b = k
        while b - 1 >= lo and toks[b - 1].kind in ("ws", "comment"):
            b -= 1
        # keep only contiguous doc comments directly above (we do not need them precisely)
        start_off = toks[k].start
        # attributes
        attrs = []
        while k < hi and toks[k].kind == "punct" and toks[k].text == "#":
            j = _skip_trivia(toks, k + 1)
            if toks[j].text == "!":
                j = _skip_trivia(toks, j + 1)
            if toks[j].text != "[":
                break
            e = match_close(toks, j)
            attrs.append(src[toks[k].start:toks[e].end])
            k = _skip_trivia(toks, e + 1)
        if k >= hi:
            break
        hdr = k
        # modifiers
        j = k
        while j < hi and toks[j].kind == "ident" and toks[j].text in _MODIFIERS:
            nx = _skip_trivia(toks, j + 1)
            if toks[j].text == "const":
                # `const fn` vs `const NAME`
                if not (toks[nx].kind == "ident" and toks[nx].text in ("fn", "unsafe", "extern", "async")):
                    break
            if toks[j].text == "extern":
                if toks[nx].kind == "str":
                    nx = _skip_trivia(toks, nx + 1)
                elif toks[nx].text == "crate":
                    break
            if toks[j].text == "pub" and toks[nx].kind == "punct" and toks[nx].text == "(":
                nx = _skip_trivia(toks, match_close(toks, nx) + 1)
            j = nx
        kw = toks[j]
        if kw.kind != "ident" or kw.text not in _ITEM_KW:
            # not an item we understand (macro invocation, stray token): skip to next `;` or group
            k = _skip_stmt(toks, k, hi)
            continue
        kind = kw.text
        name = None
        impl_of = trait_of = None
        body_open = body_close = None
        # find the end of the item: first `;` or `{...}` at depth 0 (parens/brackets skipped)
        p = _skip_trivia(toks, j + 1)
        if kind in ("fn", "struct", "enum", "trait", "mod", "const", "static", "type", "union"):
            if toks[p].kind == "ident":
                name = toks[p].text
        q = p
        end = None
        while q < hi:
            t = toks[q]
            if t.kind == "punct":
                if t.text in ("(", "["):
                    q = match_close(toks, q)
                elif t.text == "{":
                    body_open = q
                    body_close = match_close(toks, q)
                    end = body_close + 1
                    break
                elif t.text == ";":
                    end = q + 1
                    break
            q += 1
        if end is None:
            raise LexError("item without end near offset %d" % kw.start)
        if kind in ("struct", "union") and body_open is not None:
            pass
        if kind == "struct" and body_open is None:
            pass  # tuple / unit struct ending in `;`
        if kind == "const" or kind == "static" or kind == "type" or kind == "use":
            # `const X: T = { ... };` — extend to the `;`
            if body_open is not None:
                q = body_close + 1
                q = _skip_trivia(toks, q)
                # find terminating ';'
                r = body_close + 1
                while r < hi and not (toks[r].kind == "punct" and toks[r].text == ";"):
                    if toks[r].kind == "punct" and toks[r].text in OPEN:
                        r = match_close(toks, r)
                    r += 1
                end = r + 1
                body_open = body_close = None
        if kind == "impl":
            impl_of, trait_of = _impl_header(toks, j + 1, body_open)
            name = impl_of
        it = Item(kind, name, path[-1][1] if path and path[-1][0] == "impl" else None,
                  path[-1][2] if path and path[-1][0] == "impl" else None,
                  toks[item_first].start, toks[hdr].start,
                  toks[body_open].start if body_open is not None else None,
                  toks[body_close].start if body_close is not None else None,
                  toks[end - 1].end, attrs, path)
        yield it
        if kind in ("impl", "trait", "mod") and body_open is not None:
            sub = path + ((kind, name, trait_of),)
            for x in items(src, toks, body_open + 1, body_close, sub):
                yield x
        k = end


def _prev_sig(toks, j):
    j -= 1
    while j >= 0 and toks[j].kind in ("ws", "comment"):
        j -= 1
    return j


def _skip_stmt(toks, k, hi):
    while k < hi:
        t = toks[k]
        if t.kind == "punct":
            if t.text in OPEN:
                k = match_close(toks, k)
                if t.text == "{":
                    return k + 1
            elif t.text == ";":
                return k + 1
        k += 1
    return hi


def _impl_header(toks, k, body_open):
    """Parse `impl<..> [Trait for] Type<..> [where ..] {` → (type name, trait name)."""
    k = _skip_trivia(toks, k)
    if toks[k].text == "<":
        k = _skip_trivia(toks, match_angle(toks, k) + 1)
    names = []  # list of (last path ident) per path, split by `for`
    cur = None
    j = k
    while j < body_open:
        t = toks[j]
        if t.kind == "ident":
            if t.text == "for":
                names.append(cur)
                cur = None
            elif t.text == "where":
                break
            elif t.text not in ("dyn", "mut", "const", "unsafe"):
                cur = t.text
        elif t.kind == "punct" and t.text == "<":
            j = match_angle(toks, j)
        elif t.kind == "punct" and t.text in OPEN:
            j = match_close(toks, j)
        j += 1
    names.append(cur)
    if len(names) == 2:
        return names[1], names[0]
    return names[0], None


def find_item(src, kind, name, impl_of=None, trait_of=None, toks=None, nth=0):
    """Locate an item.  For fns inside impl blocks give impl_of (and trait_of for
    trait impls; trait_of='' means inherent impl only, None means any)."""
    found = []
    for it in items(src, toks):
        if it.kind != kind or it.name != name:
            continue
        in_test = any(p[0] == "mod" and p[1] in ("test", "tests") for p in it.path)
        if in_test:
            continue
        if kind == "fn":
            if impl_of is None:
                if it.impl_of is not None or any(p[0] in ("impl", "trait") for p in it.path):
                    continue
            else:
                if it.impl_of != impl_of:
                    # trait definition fns: path ends with ('trait', Name, None)
                    if not (it.path and it.path[-1][0] == "trait" and it.path[-1][1] == impl_of):
                        continue
                if trait_of is not None and (it.trait_of or "") != trait_of:
                    continue
        found.append(it)
    if len(found) <= nth:
        return None
    return found[nth]
