"""Per-property configuration: which module templates are assembled, which of
them are verified with bodies (the property's cone), claim texts.

`modules`  : ordered list of templates assembled into the file (callee modules
             come first so that `use super::x::*` resolves).
`body`     : modules whose functions are verified with their real bodies for
             this property; functions of the other modules appear as
             contracts only (`external_body`), exactly the contract text that
             their own property's check verifies against the body.
`modes`    : R2 modes to run ("P": fatal! unreachable, "S": fatal! aborts).
"""

PROPS = {'C18': {'title': 'Inflights window is a bounded FIFO under resizing',
         'modules': ['prelude', 'inflights'],
         'body': ['inflights'],
         'modes': ['P'],
         'claim': 'FULL',
         'decided': ['every public operation of Inflights keeps the representation invariant and equals the bounded-FIFO model: add pushes at the tail '
                     '(guarded by !full), free_to removes exactly the prefix <= the index, free_first_one the first element, reset empties and applies a '
                     'deferred capacity, set_cap grows at once / defers a shrink below the occupancy until the window drains, maybe_free_buffer changes '
                     'nothing observable; count/full are exact'],
         'undecided': [],
         'assumptions': ['Vec::shrink_to / buffer reallocation semantics of std (no effect on the view)'],
         'bounded': ['mon_c18: real Inflights vs the FIFO model']},
 'C14': {'title': 'RaftLog behaves as one logical log over storage + unstable + snapshot',
         'modules': ['top', 'prelude', 'pb', 'log_unstable', 'storage_trait', 'raft_log'],
         'body': ['log_unstable', 'storage_trait', 'config', 'util', 'raft_log'],
         'modes': ['P', 'S'],
         'claim': 'FULL (relative to the Storage trait contract, which module memstorage/C19 proves for MemStorage)',
         'decided': ['RaftLog (storage + unstable + pending snapshot) answers first/last index, term, match_term, entries/slice (non-empty maximal prefix '
                     'within the size limit), find_conflict, find_conflict_by_term, is_up_to_date, next_entries(_since), has_next_entries(_since) exactly like '
                     'the logical-log view, and append (now lowering persisted when it truncates below it), maybe_append, commit_to, maybe_commit, applied_to '
                     '(no-op when nothing new is reported), stable_entries, stable_snap, maybe_persist (below the first unwritten update and with the stored '
                     'term), maybe_persist_snap, restore keep the well-formedness invariant (persisted < unstable.offset, applied/committed bounds) and change '
                     'only what the model says'],
         'undecided': ['RaftLog::scan (FnMut callback): bounded K-ext Kani harness under C09', 'all_entries (test helper)'],
         'bounded': ['mon_c14: real RaftLog<MemStorage> vs a plain sequence model'],
         'assumptions': ['util::limit_size returns limit_prefix (protobuf compute_size is an uninterpreted size function)',
                         'machine integers: indexes < 2^62 (explicit requires)']},
 'C19': {'title': 'MemStorage honours the Storage contract',
         'modules': ['top', 'prelude', 'pb', 'log_unstable', 'storage_trait', 'raft_log', 'memstorage'],
         'body': ['storage_trait', 'util', 'memstorage'],
         'modes': ['P', 'S'],
         'claim': 'FULL for the single-threaded semantics (the RwLock is modelled as the protected value)',
         'decided': ['MemStorageCore/MemStorage keep their representation invariant and satisfy the Storage trait contract used by C14: first/last index, term '
                     '(the term before first_index is retained after ANY compaction), entries (bounds, size limit, Compacted/Unavailable), append (overwriting '
                     'appends truncate from the first overwritten index), compact (boundary kept, never backwards), apply_snapshot (rejects out-of-date, '
                     'resets log and meta), commit_to, snapshot (index >= request, at the commit index)'],
         'undecided': ['MemStorage::snapshot raising the index to the requested one (documented test behaviour) is taken as specified'],
         'bounded': ['mon_c19: real MemStorage vs snapshot point + contiguous entries'],
         'assumptions': ['Arc<RwLock<X>> modelled as X (R16)']},
 'C20': {'title': 'No panic or internal-check failure under contract-abiding use',
         'modules': {'P': ['top',
                           'prelude',
                           'pb',
                           'inflights',
                           'progress',
                           'quorum',
                           'tracker',
                           'confchange',
                           'log_unstable',
                           'storage_trait',
                           'raft_log',
                           'memstorage'],
                     'S': ['top',
                           'prelude',
                           'pb',
                           'inflights',
                           'progress',
                           'quorum',
                           'tracker',
                           'log_unstable',
                           'storage_trait',
                           'raft_log',
                           'raft',
                           'raw_node']},
         'body': {'P': ['inflights',
                        'progress',
                        'quorum',
                        'tracker',
                        'confchange',
                        'log_unstable',
                        'storage_trait',
                        'config',
                        'util',
                        'raft_log',
                        'memstorage'],
                  'S': []},
         'cone': {'S': ['raft', 'raw_node']},
         'modes': ['P', 'S'],
         'claim': 'PARTIAL',
         'decided': ['mode P (panic sites are proof obligations): every function of inflights, progress, quorum, tracker, confchange, log_unstable, raft_log, '
                     "util, MemStorage is panic-free under its stated precondition, and every call site inside a verified function establishes its callee's "
                     'precondition',
                     'mode S, raft.rs / raw_node.rs: clauses the internal checks rely on: become_follower resets the unpersisted-apply limit; hup scans only '
                     'entries that exist in the log (precondition of the scan), ignores MsgHup on a non-voter and on a lone voter with an unpersisted log; '
                     'on_persist_entries / maybe_commit work on a leader that is no longer tracked; applied_to accepts the current applied index in the '
                     'restart window; send accepts a pre-vote rejection at term 0; RawNode::step rejects local messages and responses from unknown peers '
                     'without changing state',
                     'the abort of Raft::load_state (stored commit index beyond the log) is a proof obligation in mode S too, discharged by Raft::new under '
                     'the stated assumption that the stored commit index is not beyond the stored log; a stored commit index BELOW the first index (lazy '
                     'persistence + compaction) is accepted'],
         'undecided': ['that the preconditions hold in every reachable cluster state (global invariant)',
                       'panic-freedom of the raft.rs / raw_node.rs bodies themselves (mode S assumes the abort paths away): covered only by the bounded '
                       'monitors mon_c06 --prop C20 and mon_cluster --prop C20 in both tiers',
                       'a reply to persisted messages stepped before on_persist_ready (become_leader assert): read as outside the Ready contract, see '
                       'DESIGN.md A.4'],
         'assumptions': ['mode S for raft.rs and raw_node.rs (fatal!/panic!/assert! abort; postconditions hold on normal return)',
                         'assumed contracts (fingerprint-locked in spec/assumed.lock.json): ProgressTracker::get_mut, '
                         'Raft::has_unapplied_conf_changes (K-ext Kani), RaftCore::try_batching (K-ext Kani); ReadOnly is under '
                         'contract over a byte-keyed view of its table: the five std HashMap operations with Vec<u8> / &[u8] keys are specified helpers '
                         '(verif_ri_*)',
                         'specified helpers for std / protobuf calls (R9) and the three cut texts (R10) listed in the evidence file'],
         'bounded': ['mon_c06 --prop C20 (RawNode driver, panics only)', 'mon_cluster --prop C20 (three nodes, lossy network, panics only)']},
 'C11': {'title': 'Quorum arithmetic: commit index and vote tallies are exact',
         'modules': ['top', 'prelude', 'pb', 'inflights', 'progress', 'quorum', 'tracker'],
         'body': ['quorum', 'tracker'],
         'modes': ['P'],
         'claim': 'FULL for the arithmetic and the heap collection path; the unsafe stack-array fast path for <= 7 voters is assumed to produce the same '
                  'listing as the (verified) heap path, and sort_by to be a sorted permutation',
         'decided': ['util::majority(n) = n/2+1',
                     'MajorityConfig::committed_index: empty => (u64::MAX, true); without group commit the result IS the largest index acknowledged by a '
                     'majority (count-based definition, every voter set and ack assignment); with group commit never above it and, when every voter has a '
                     'group and the flag is returned, the largest index <= the quorum index replicated into two different groups',
                     'MajorityConfig::vote_result equals the model (Won iff the yes-set is a majority, Lost iff yes+missing cannot reach one, empty => Won); '
                     'JointConfig::{committed_index (min of the halves), vote_result, is_singleton, contains}; ProgressTracker::{maximal_committed_index, '
                     'vote_result, has_quorum, tally_votes result, is_singleton, get}'],
         'undecided': ['the yes/no counters returned by tally_votes (cut, R10); the std operation HashMap::entry().or_insert() inside record_vote (R9, assumed)'],
         'assumptions': ['R10: unsafe MaybeUninit stack array path == heap path',
                         'sort_by is a sorted permutation',
                         'HashMap::entry().or_insert: the first recorded vote sticks'],
         'bounded': ['mon_c11: real tracker vs count-based definitions, 1..10 voters, joint, group commit, has_quorum over member subsets']},
 'C13': {'title': 'Replication flow control and well-formed append/heartbeat messages',
         'modules': ['top', 'prelude', 'pb', 'inflights', 'progress', 'quorum', 'tracker', 'log_unstable', 'storage_trait', 'raft_log', 'raft'],
         'body': {'P': ['inflights', 'progress'], 'S': ['inflights', 'progress']},
         'cone': {'P': ['log_unstable', 'raft_log'], 'S': ['log_unstable', 'raft', 'raft_log', 'tracker']},
         'modes': ['P', 'S'],
         'claim': 'PARTIAL (every per-call clause; "toward each follower over time" is carried by the representation invariants count <= cap and by the '
                  'contracts of the send path)',
         'decided': ['Progress + Inflights state machine (pause rules, window registration, optimistic update, probe/replicate/snapshot transitions) equals '
                     'the model; maybe_send_append sends nothing while paused, at most one message per call without batching, anchored at (next_idx-1, its '
                     'term) with a contiguous non-empty-maximal slice within max_size_per_msg, registers the last index in the window, and sends a snapshot '
                     'only when the entries are unavailable or one was requested (not older than requested); heartbeats advertise min(matched, committed); '
                     'send_append / send_append_aggressively / bcast_append / bcast_heartbeat push only replication / heartbeat traffic; the uncommitted-size '
                     'accounting (admit iff within the limit or nothing outstanding or empty payload; reset at the old tail on election; reduce on hand-out) '
                     'equals its model',
                     'Progress::maybe_decr_to: a rejection of an index the follower has acknowledged since never releases a probe that is in flight'],
         'undecided': ['the history statement over all sends to a follower'],
         'bounded': ['K-ext Kani c13_try_batching: after try_batching every MsgAppend in the outbox is still an anchored contiguous run (outbox of 2, <= 2 new '
                     'entries)',
                     'mon_c14 (log reads)'],
         'assumptions': ['mode S for raft.rs and raw_node.rs (fatal!/panic!/assert! abort; postconditions hold on normal return)',
                         'assumed contracts (fingerprint-locked in spec/assumed.lock.json): ProgressTracker::get_mut, '
                         'Raft::has_unapplied_conf_changes (K-ext Kani), RaftCore::try_batching (K-ext Kani); ReadOnly is under '
                         'contract over a byte-keyed view of its table: the five std HashMap operations with Vec<u8> / &[u8] keys are specified helpers '
                         '(verif_ri_*)',
                         'specified helpers for std / protobuf calls (R9) and the three cut texts (R10) listed in the evidence file']},
 'C03': {'title': 'Leader completeness and the election restriction',
         'modules': ['top', 'prelude', 'pb', 'inflights', 'progress', 'quorum', 'tracker', 'log_unstable', 'storage_trait', 'raft_log', 'raft'],
         'body': {'P': ['log_unstable', 'raft_log'], 'S': ['log_unstable', 'raft_log']},
         'modes': ['P', 'S'],
         'claim': 'PARTIAL (the election restriction and the commit-by-vote rule, per call)',
         'decided': ["Raft::step: a vote or pre-vote is granted only to a candidate whose (log_term, index) is at least the voter's own tail (priority "
                     'tie-break included), in every role; no other message makes step / step_leader / step_follower / step_candidate emit a grant; campaign / '
                     "poll: every request advertises the candidate's own (last_index, last_term, commit); a candidate counts only MsgRequestVoteResponse, a "
                     'pre-candidate only MsgRequestPreVoteResponse for the term it asked for; the poll result is exactly the tally; Leader is entered only '
                     'from poll on Won; maybe_commit_by_vote moves the commit index only through RaftLog::maybe_commit (term of that index must match) and '
                     'keeps term and vote; hup does not campaign with an unapplied membership change up to the commit index'],
         'undecided': ['leader completeness itself (cluster-wide induction)'],
         'assumptions': ['mode S for raft.rs and raw_node.rs (fatal!/panic!/assert! abort; postconditions hold on normal return)',
                         'assumed contracts (fingerprint-locked in spec/assumed.lock.json): ProgressTracker::get_mut, '
                         'Raft::has_unapplied_conf_changes (K-ext Kani), RaftCore::try_batching (K-ext Kani); ReadOnly is under '
                         'contract over a byte-keyed view of its table: the five std HashMap operations with Vec<u8> / &[u8] keys are specified helpers '
                         '(verif_ri_*)',
                         'specified helpers for std / protobuf calls (R9) and the three cut texts (R10) listed in the evidence file'],
         'cone': {'P': [], 'S': ['raft']},
         'bounded': ["mon_cluster --prop C03: committed prefixes are contained in every later leader's log; one value per applied index"]},
 'C06': {'title': 'Promises survive crashes: persist-before-send, one vote per term',
         'modules': ['top',
                     'prelude',
                     'pb',
                     'inflights',
                     'progress',
                     'quorum',
                     'tracker',
                     'log_unstable',
                     'storage_trait',
                     'raft_log',
                     'raft',
                     'raw_node',
                     'memstorage'],
         'body': {'S': []},
         'modes': ['S'],
         'claim': 'PARTIAL (per call: term monotone, one vote per term, restart state, release discipline of Ready)',
         'decided': ['every handler keeps step_frame: the term never decreases, the vote changes only together with the term or from none; load_state restores '
                     "(term, vote, commit) exactly; RawNode::ready: a non-leader's messages are persisted messages; a leader's messages are released at once "
                     'only if neither this Ready nor an outstanding (unpersisted) one carries a new term or vote; must_sync whenever entries, a snapshot or a '
                     'new term/vote are handed out; the record pushed for the Ready carries what on_persist_ready needs',
                     'restart: Raft::new restores (term, vote) exactly from the stored hard state and starts as a silent follower (no leader, empty outbox) '
                     'with the commit index max(stored commit, first index - 1); RawNode::new likewise; MemStorageCore::apply_snapshot never lowers the stored '
                     'term and keeps the stored vote'],
         'undecided': ['the crash-point statement over all schedules'],
         'assumptions': ['mode S for raft.rs and raw_node.rs (fatal!/panic!/assert! abort; postconditions hold on normal return)',
                         'assumed contracts (fingerprint-locked in spec/assumed.lock.json): ProgressTracker::get_mut, '
                         'Raft::has_unapplied_conf_changes (K-ext Kani), RaftCore::try_batching (K-ext Kani); ReadOnly is under '
                         'contract over a byte-keyed view of its table: the five std HashMap operations with Vec<u8> / &[u8] keys are specified helpers '
                         '(verif_ri_*)',
                         'specified helpers for std / protobuf calls (R9) and the three cut texts (R10) listed in the evidence file'],
         'cone': {'S': ['storage_trait', 'raft', 'raw_node', 'memstorage']},
         'bounded': ['mon_c06: every message checked at release time against the durable hard state (sync + async readies)',
                     'mon_c06: crashes - the node restarts from a durable image holding exactly the Readys reported persisted plus possibly a prefix of the '
                     'oldest unfinished write; after a restart the term is not below any released message and the vote is the one told']},
 'C16': {'title': 'PreVote + CheckQuorum: a node that cannot win does not disrupt the cluster',
         'modules': ['top', 'prelude', 'pb', 'inflights', 'progress', 'quorum', 'tracker', 'log_unstable', 'storage_trait', 'raft_log', 'raft'],
         'body': {'S': []},
         'modes': ['S'],
         'claim': 'PARTIAL (first sentence and the lease rule, per call)',
         'decided': ['handling MsgRequestPreVote never changes term or vote; a granted pre-vote response never makes a node that is not a pre-candidate adopt '
                     'its term; a pre-candidate ignores grants of another round; a vote request inside the leader lease (check_quorum, known leader, election '
                     'timeout not elapsed, not a transfer) is ignored without any change; poll/campaign: a lost pre-vote leaves the term unchanged; '
                     'step_leader / step_follower ignore vote responses',
                     'a follower restarts its election timer and records the sender as leader on every MsgAppend / MsgHeartbeat / MsgSnapshot of the current '
                     'term (the handlers themselves never touch timer or leader); MsgCheckQuorum: the leader stays leader iff the peers heard from since the '
                     'last check (itself included) are a quorum of the (joint) configuration, otherwise it becomes a leaderless follower of the same term; the '
                     'activity flags are reset'],
         'undecided': ['"a healthy leader is never deposed" as a history statement'],
         'assumptions': ['mode S for raft.rs and raw_node.rs (fatal!/panic!/assert! abort; postconditions hold on normal return)',
                         'assumed contracts (fingerprint-locked in spec/assumed.lock.json): ProgressTracker::get_mut, '
                         'Raft::has_unapplied_conf_changes (K-ext Kani), RaftCore::try_batching (K-ext Kani); ReadOnly is under '
                         'contract over a byte-keyed view of its table: the five std HashMap operations with Vec<u8> / &[u8] keys are specified helpers '
                         '(verif_ri_*)',
                         'specified helpers for std / protobuf calls (R9) and the three cut texts (R10) listed in the evidence file'],
         'cone': {'S': ['raft', 'tracker']}},
 'C07': {'title': 'Ready contract: exact, ordered, persisted-only hand-off of entries',
         'modules': ['top', 'prelude', 'pb', 'inflights', 'progress', 'quorum', 'tracker', 'log_unstable', 'storage_trait', 'raft_log', 'raft', 'raw_node'],
         'body': {'P': ['log_unstable', 'raft_log'], 'S': ['log_unstable', 'raft_log', 'raw_node']},
         'modes': ['P', 'S'],
         'claim': 'PARTIAL (every per-call clause of new/ready/has_ready/gen_light_ready/commit_ready/on_persist_ready/advance_append; the lifetime "exactly '
                  'once" statement is not lifted from them)',
         'decided': ['RawNode::new hands out from the configured applied index; has_ready iff ready() is non-empty; ready: entries are the unstable entries, '
                     'hs/ss iff changed, snapshot with no committed entries, committed entries are the contiguous limit-prefix starting right after '
                     'commit_since_index and never beyond min(committed, persisted + limit), messages moved out once; commit_ready stabilises exactly what the '
                     'record holds and never moves persisted; on_persist_ready acknowledges the leading records <= the number and reports only what they hold; '
                     'advance_append = commit_ready + on_persist_ready(max_number) + light ready with the commit index iff advanced',
                     'advance = advance_append followed by advance_apply_to(the commit_since_index BEFORE the light ready); advance_apply / advance_apply_to '
                     'move the applied index exactly to the given index (0: unchanged) and change nothing else of the Ready bookkeeping'],
         'undecided': ['exactly-once over the lifetime'],
         'assumptions': ['mode S for raft.rs and raw_node.rs (fatal!/panic!/assert! abort; postconditions hold on normal return)',
                         'assumed contracts (fingerprint-locked in spec/assumed.lock.json): ProgressTracker::get_mut, '
                         'Raft::has_unapplied_conf_changes (K-ext Kani), RaftCore::try_batching (K-ext Kani); ReadOnly is under '
                         'contract over a byte-keyed view of its table: the five std HashMap operations with Vec<u8> / &[u8] keys are specified helpers '
                         '(verif_ri_*)',
                         'specified helpers for std / protobuf calls (R9) and the three cut texts (R10) listed in the evidence file',
                         'VecDeque::front/back standard semantics'],
         'cone': {'P': [], 'S': ['raft']},
         'bounded': []},
 'C05': {'title': 'Log matching; leaders append-only; committed prefix immutable',
         'modules': ['top', 'prelude', 'pb', 'inflights', 'progress', 'quorum', 'tracker', 'log_unstable', 'storage_trait', 'raft_log', 'raft', 'raw_node'],
         'body': {'P': ['log_unstable', 'raft_log'], 'S': ['log_unstable', 'raft_log']},
         'modes': ['P', 'S'],
         'claim': 'PARTIAL (per node and per call: acceptance rule, truncation point, immutability of the committed prefix)',
         'decided': ['maybe_append accepts iff (prev index, prev term) matches, truncates exactly from the first conflicting entry, never at or below the '
                     'commit index (fatal), and leaves every entry below the conflict unchanged; handle_append_entries / handle_heartbeat / handle_snapshot '
                     'replies carry what was accepted; append_entry stamps (term, last+1..) and only appends; become_leader appends one own-term entry; '
                     'restore discards only when installing; the election clauses that keep one leader per term (C03.step_candidate.counts_only_own_kind)'],
         'undecided': ['log matching between nodes (cluster statement)'],
         'assumptions': ['mode S for raft.rs and raw_node.rs (fatal!/panic!/assert! abort; postconditions hold on normal return)',
                         'assumed contracts (fingerprint-locked in spec/assumed.lock.json): ProgressTracker::get_mut, '
                         'Raft::has_unapplied_conf_changes (K-ext Kani), RaftCore::try_batching (K-ext Kani); ReadOnly is under '
                         'contract over a byte-keyed view of its table: the five std HashMap operations with Vec<u8> / &[u8] keys are specified helpers '
                         '(verif_ri_*)',
                         'specified helpers for std / protobuf calls (R9) and the three cut texts (R10) listed in the evidence file',
                         'R10: the stamping loop of append_entry'],
         'cone': {'P': [], 'S': ['raft', 'raw_node']},
         'bounded': ['mon_c14',
                     'mon_cluster --prop C05: log matching between every pair of nodes',
                     'K-ext c13_try_batching (Kani + native enumeration): every MsgAppend in the outbox stays a contiguous run anchored at its own index after '
                     'batching']},
 'C04': {'title': 'Commit rule: only own-term entries that are durable on a quorum',
         'modules': ['top', 'prelude', 'pb', 'inflights', 'progress', 'quorum', 'tracker', 'log_unstable', 'storage_trait', 'raft_log', 'raft', 'raw_node'],
         'body': {'P': ['quorum', 'tracker', 'log_unstable', 'raft_log'], 'S': ['quorum', 'tracker', 'log_unstable', 'raft_log']},
         'cone': {'P': ['progress'], 'S': ['progress', 'raft', 'raw_node']},
         'modes': ['P', 'S'],
         'claim': 'PARTIAL (leader-side rule per call; follower-side bounds per call; persistence notices)',
         'decided': ['Raft::maybe_commit advances the commit index only to an index <= the quorum index of the active (joint) configuration over the matched '
                     "indexes (C11) whose entry carries the leader's term; the leader's own matched index is written only by reset (= persisted) and by "
                     'on_persist_entries (to the index the log just accepted as persisted); maybe_persist refuses indexes at or beyond the first unwritten '
                     'update and requires the stored term; RawNode::on_persist_ready consumes exactly the leading records <= the notified number, changes '
                     "nothing when none qualifies, reports only what they hold; commit_ready / advance_append_async never move persisted; a follower's "
                     'acknowledgements are persisted messages; followers never commit beyond min(leader commit, last new index)'],
         'undecided': ['durability on a quorum as a cluster statement'],
         'assumptions': ['mode S for raft.rs and raw_node.rs (fatal!/panic!/assert! abort; postconditions hold on normal return)',
                         'assumed contracts (fingerprint-locked in spec/assumed.lock.json): ProgressTracker::get_mut, '
                         'Raft::has_unapplied_conf_changes (K-ext Kani), RaftCore::try_batching (K-ext Kani); ReadOnly is under '
                         'contract over a byte-keyed view of its table: the five std HashMap operations with Vec<u8> / &[u8] keys are specified helpers '
                         '(verif_ri_*)',
                         'specified helpers for std / protobuf calls (R9) and the three cut texts (R10) listed in the evidence file',
                         'VecDeque::front/back standard semantics'],
         'bounded': ['mon_c04: single-voter RawNode with late / repeated / stale notices', 'mon_cluster --prop C04']},
 'C12': {'title': 'Configuration-change algebra keeps invariants and quorum overlap',
         'modules': {'P': ['top', 'prelude', 'pb', 'inflights', 'progress', 'quorum', 'tracker', 'confchange'],
                     'S': ['top',
                           'prelude',
                           'pb',
                           'inflights',
                           'progress',
                           'quorum',
                           'tracker',
                           'confchange',
                           'log_unstable',
                           'storage_trait',
                           'raft_log',
                           'raft',
                           'raft_conf']},
         'body': {'P': ['confchange'], 'S': []},
         'cone': {'P': ['quorum', 'tracker'], 'S': ['raft_conf', 'pb']},
         'modes': ['P', 'S'],
         'claim': 'PROOF for Changer::{simple, enter_joint, leave_joint}, ProgressTracker::apply_conf, confchange::restore (partial correctness: IF it '
                  'succeeds it reproduces the configuration the ConfState describes) and the quorum-overlap lemmas; Configuration::to_conf_state and MajorityConfig::raw_slice are under '
                  'contract since round 13 (each rendered component lists exactly the members of its set; only the std HashSet -> Vec collect is assumed, R9)',
         'decided': ['IncrChangeMap::contains: the LATEST logged change of an id decides (icm_dom); check_invariants returns Ok IFF cfg_checked (the stated '
                     'disjointness / staging / tracking conditions), for every configuration and change log',
                     'Changer::apply is the left fold of the reference step function sp_apply_one over the change list and rejects exactly the results without '
                     'incoming voters; make_voter / make_learner / remove / init_progress equal their reference steps',
                     'simple / enter_joint / leave_joint: the returned configuration is the stated function of the tracker configuration and the change list; '
                     'from a configuration satisfying cfg_inv (voters and learners disjoint, staged learners inside the outgoing voters, progress for EXACTLY '
                     'the members, nothing staged / no auto-leave outside joint) the result satisfies cfg_inv again, has an incoming voter, simple changes the '
                     'incoming voters by at most one member and is refused while joint; legal simple changes are accepted; a refused change cannot touch the '
                     'tracker (the methods take &self / return new values: checked by the borrow discipline)',
                     'ProgressTracker::apply_conf installs the configuration and the progress-map domain becomes icm_dom(changes); untouched entries keep '
                     'their Progress',
                     'confchange::to_conf_change_single produces exactly the two stated change lists; confchange::restore from an empty tracker and a '
                     'consistent ConfState (sets disjoint / staged inside outgoing, no id 0): if it returns Ok the tracker configuration equals the five sets '
                     'of the ConfState (auto_leave included) and progress is tracked for exactly its members (replay lemmas over the reference step function, '
                     'four phases)',
                     'lemma_c12_{simple,enter_joint,leave_joint}_overlap: a deciding set (strict majority of incoming, and of outgoing when joint) before the '
                     'change shares a voter with any deciding set after it, for the result shapes the three contracts establish',
                     "Raft::apply_conf_change applies exactly the algebra's result to the running node (see C09) and rejected changes leave it untouched"],
         'undecided': ['that restore never FAILS on the ConfState of a reachable configuration (the std HashSet -> Vec '
                       'collect inside to_conf_state / raw_slice is an R9 assumption): only the bounded monitor mon_c12 exercises the full round trip through Raft::new',
                       'that callers (Raft::apply_conf_change) only pass configurations satisfying cfg_inv (needs the invariant over the whole run)'],
         'assumptions': ['std iterator adapters rfind / extend / drain / symmetric_difference().count() / Union::iter as specified helpers (R9)',
                         'derive(Clone) of tracker::Configuration copies the sets (R9)',
                         'protobuf ConfChangeSingle / ConfChangeType stubs']},
 'C15': {'title': 'Snapshot install and log compaction preserve state and safety',
         'modules': ['top',
                     'prelude',
                     'pb',
                     'inflights',
                     'progress',
                     'quorum',
                     'tracker',
                     'confchange',
                     'log_unstable',
                     'storage_trait',
                     'raft_log',
                     'raft',
                     'raw_node'],
         'body': {'P': ['log_unstable', 'raft_log', 'progress'], 'S': ['log_unstable', 'raft_log', 'progress']},
         'modes': ['P', 'S'],
         'claim': 'PARTIAL (install decision, log/commit effect, request rule, leader-side send/resume rules)',
         'decided': ['Raft::restore: ignores a snapshot behind the commit or applied index or not listing the node; a snapshot that matches the log and is not '
                     'the requested one (none pending, or older than requested) only advances the commit index and discards nothing; otherwise '
                     'RaftLog::restore: commit = index, boundary term = snapshot term, appends continue at index+1; request_snapshot asks for the whole log '
                     '(last index) and changes nothing when dropped; prepare_send_snapshot never sends older than requested; handle_snapshot_status / '
                     'handle_append_response resume replication after the snapshot index; the configuration is rebuilt by confchange::restore (C12)',
                     "after an install the tracker's configuration equals the snapshot's ConfState (component-wise); ProgressTracker::clear empties progress, "
                     'votes and configuration'],
         'undecided': ['application state equality (outside the library)'],
         'assumptions': ['mode S for raft.rs and raw_node.rs (fatal!/panic!/assert! abort; postconditions hold on normal return)',
                         'assumed contracts (fingerprint-locked in spec/assumed.lock.json): ProgressTracker::get_mut, '
                         'Raft::has_unapplied_conf_changes (K-ext Kani), RaftCore::try_batching (K-ext Kani); ReadOnly is under '
                         'contract over a byte-keyed view of its table: the five std HashMap operations with Vec<u8> / &[u8] keys are specified helpers '
                         '(verif_ri_*)',
                         'specified helpers for std / protobuf calls (R9) and the three cut texts (R10) listed in the evidence file'],
         'cone': {'P': [], 'S': ['raft', 'raw_node', 'tracker', 'confchange']},
         'bounded': []},
 'C09': {'title': 'Membership changes: one at a time, config is a function of applied log',
         'modules': ['top',
                     'prelude',
                     'pb',
                     'inflights',
                     'progress',
                     'quorum',
                     'tracker',
                     'confchange',
                     'log_unstable',
                     'storage_trait',
                     'raft_log',
                     'raft',
                     'raft_conf',
                     'raw_node'],
         'body': {'S': []},
         'modes': ['S'],
         'claim': 'PARTIAL ((a) one membership change at a time, (b) no election with an unapplied change, (d) non-voters never campaign; (c) configuration as '
                  'a function of the applied log only through C12)',
         'decided': ['the proposal filter (real loop, un-cut): at most one membership-change entry of a proposal is kept, none if one is pending; a kept '
                     'change fits the configuration (leave iff joint, classified as it will be applied); a refused one becomes an empty normal entry; '
                     'pending_conf_index is the index of the kept one; become_leader sets pending_conf_index to the last index; hup: a leader, a non-voter, a '
                     'node with an unapplied change ignore it; tick_election / MsgTimeoutNow need promotable; post_conf_change recomputes promotable from the '
                     "configuration and returns the configuration's ConfState",
                     'commit_apply: the automatic leave-joint proposal fires iff the configuration is an auto-leave joint one, the applied index passes '
                     'pending_conf_index and the node leads; the appended entry is an empty EntryConfChangeV2 of the current term and becomes the pending '
                     'change; a (pre-)candidate that learns through a vote message that a membership change in (commit, new commit] is committed and unapplied '
                     "becomes follower; Raft::new: the tracker's configuration equals the stored ConfState and promotable iff voter",
                     "Raft::apply_conf_change (raft.rs linked with the membership unit): on success the tracker's configuration is exactly what the C12 "
                     'algebra assigns to the change (leave-joint / enter-joint with the requested auto-leave flag / simple), progress is tracked for exactly '
                     'its members whenever that held before, the returned ConfState lists the new configuration and promotable is recomputed from it; a '
                     'rejected change leaves the whole Raft untouched; term, vote and role are kept'],
         'undecided': ['identical configurations at equal applied index across nodes (history statement)'],
         'assumptions': ['mode S for raft.rs and raw_node.rs (fatal!/panic!/assert! abort; postconditions hold on normal return)',
                         'assumed contracts (fingerprint-locked in spec/assumed.lock.json): ProgressTracker::get_mut, '
                         'Raft::has_unapplied_conf_changes (K-ext Kani), RaftCore::try_batching (K-ext Kani); ReadOnly is under '
                         'contract over a byte-keyed view of its table: the five std HashMap operations with Vec<u8> / &[u8] keys are specified helpers '
                         '(verif_ri_*)',
                         'specified helpers for std / protobuf calls (R9) and the three cut texts (R10) listed in the evidence file',
                         'protobuf decoding of proposed membership changes (uninterpreted)'],
         'cone': {'S': ['raft', 'raft_conf', 'raw_node', 'tracker', 'confchange', 'pb']},
         'bounded': ['K-ext Kani c09_has_unapplied_conf_changes: real text of RaftLog::scan + has_unapplied_conf_changes, logs <= 3 entries, every page '
                     'split']},
 'C17': {'title': 'Leadership transfer hands off safely and never wedges the leader',
         'modules': ['top', 'prelude', 'pb', 'inflights', 'progress', 'quorum', 'tracker', 'log_unstable', 'storage_trait', 'raft_log', 'raft'],
         'body': {'S': []},
         'modes': ['S'],
         'claim': 'PARTIAL (every leader-side per-call clause; the healthy-cluster completion sentence is not decided)',
         'decided': ["MsgTimeoutNow is sent only to the pending target once its matched index equals the leader's last index (handle_append_response, "
                     'handle_transfer_leader); a request naming a learner or unknown node is ignored, the same target is a no-op, the leader itself only '
                     'cancels; while pending, proposals are dropped; tick_heartbeat abandons the transfer after one election timeout (also with check_quorum); '
                     'post_conf_change abandons it when the target leaves the voters (also when the leader leaves them too); become_follower / reset / '
                     'become_leader clear it'],
         'undecided': ['completion in a healthy cluster'],
         'assumptions': ['mode S for raft.rs and raw_node.rs (fatal!/panic!/assert! abort; postconditions hold on normal return)',
                         'assumed contracts (fingerprint-locked in spec/assumed.lock.json): ProgressTracker::get_mut, '
                         'Raft::has_unapplied_conf_changes (K-ext Kani), RaftCore::try_batching (K-ext Kani); ReadOnly is under '
                         'contract over a byte-keyed view of its table: the five std HashMap operations with Vec<u8> / &[u8] keys are specified helpers '
                         '(verif_ri_*)',
                         'specified helpers for std / protobuf calls (R9) and the three cut texts (R10) listed in the evidence file'],
         'cone': {'S': ['raft']},
         'bounded': []},
 'C08': {'title': 'ReadIndex (Safe mode) is linearizable',
         'modules': ['top', 'prelude', 'pb', 'inflights', 'progress', 'quorum', 'tracker', 'log_unstable', 'storage_trait', 'raft_log', 'raft'],
         'body': {'S': []},
         'cone': {'S': ['quorum', 'raft', 'tracker']},
         'modes': ['S'],
         'claim': 'PARTIAL (leader- and requester-side per-call clauses; the pending-read table (ReadOnly) is verified against its queue/ack model)',
         'decided': ['step_leader: a read is dropped until the leader committed in its term; answered at once only if the leader is the sole voter; otherwise '
                     'recorded with the current commit index and a heartbeat round tagged with its context; handle_heartbeat_response / post_conf_change '
                     'release reads only after a quorum of the active configuration acknowledged the context, and only the queue prefix up to it; '
                     'handle_ready_read_index routes the answer to the origin; step_follower forwards reads to the leader and records MsgReadIndexResp on the '
                     'requester; reset drops pending reads',
                     'ReadOnly itself: add_request records (commit index, request, own ack) once per context (duplicates ignored), recv_ack adds the '
                     'acknowledgement to that context only, advance releases exactly the queue prefix up to the first occurrence of the context with the '
                     'indexes recorded at request time and forgets them; queue and table stay consistent (every queued context pending, none queued twice)'],
         'undecided': ['linearizability over all schedules'],
         'assumptions': ['mode S for raft.rs and raw_node.rs (fatal!/panic!/assert! abort; postconditions hold on normal return)',
                         'assumed contracts (fingerprint-locked in spec/assumed.lock.json): ProgressTracker::get_mut, '
                         'Raft::has_unapplied_conf_changes (K-ext Kani), RaftCore::try_batching (K-ext Kani); ReadOnly is under '
                         'contract over a byte-keyed view of its table: the five std HashMap operations with Vec<u8> / &[u8] keys are specified helpers '
                         '(verif_ri_*)',
                         'specified helpers for std / protobuf calls (R9) and the three cut texts (R10) listed in the evidence file'],
         'bounded': ['mon_cluster --prop C08: every ReadState on the issuing node with index >= the highest commit index at issue time']}}
