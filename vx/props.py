"""Per-property configuration: which module templates are assembled, which of
them are verified with bodies (the property's cone), claim texts.

`modules`  : ordered list of templates assembled into the file (callee modules
             come first so that `use super::x::*` resolves).
`body`     : modules whose functions are verified with their real bodies for
             this property; functions of the other modules appear as
             contracts only (`external_body`), exactly the contract text that
             their own property's check verifies against the body.
`modes`    : R2 modes to run ("P": fatal! unreachable, "S": fatal! aborts).
"""

PROPS = {
    "C18": {
        "title": "Inflights window is a bounded FIFO under resizing",
        "modules": ["prelude", "inflights"],
        "body": ["inflights"],
        "modes": ["P"],
        "claim": "FULL",
        "decided": [
            "every public operation of Inflights (new, set_cap, full, add, free_to, free_first_one, reset, count, "
            "maybe_free_buffer) transforms the abstract FIFO view (items, capacity, pending capacity) exactly as the "
            "bounded-FIFO model says, for all states satisfying the representation invariant and all arguments",
            "add never panics when the window is not full; the internal asserts and all indexings are proved",
        ],
        "undecided": [],
        "assumptions": [
            "capacities <= 2^60 (larger ones abort in the allocator before an Inflights exists)",
            "Vec::capacity() >= len (assume_specification); `vec![]` has capacity 0 (R9)",
            "usize is 64 bit",
        ],
    },
}
