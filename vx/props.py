"""Per-property configuration: which module templates are assembled, which of
them are verified with bodies (the property's cone), claim texts.

`modules`  : ordered list of templates assembled into the file (callee modules
             come first so that `use super::x::*` resolves).
`body`     : modules whose functions are verified with their real bodies for
             this property; functions of the other modules appear as
             contracts only (`external_body`), exactly the contract text that
             their own property's check verifies against the body.
`modes`    : R2 modes to run ("P": fatal! unreachable, "S": fatal! aborts).
"""

PROPS = {'C18': {'title': 'Inflights window is a bounded FIFO under resizing',
         'modules': ['prelude', 'inflights'],
         'body': ['inflights'],
         'modes': ['P'],
         'claim': 'FULL',
         'decided': ['every public operation of Inflights (new, set_cap, full, add, free_to, free_first_one, reset, count, maybe_free_buffer) transforms the '
                     'abstract FIFO view (items, capacity, pending capacity) exactly as the bounded-FIFO model says, for all states satisfying the '
                     'representation invariant and all arguments',
                     'add never panics when the window is not full; the internal asserts and all indexings are proved'],
         'undecided': [],
         'assumptions': ['capacities <= 2^60 (larger ones abort in the allocator before an Inflights exists)',
                         'Vec::capacity() >= len (assume_specification); `vec![]` has capacity 0 (R9)',
                         'usize is 64 bit']},
 'C14': {'title': 'RaftLog behaves as one logical log over storage + unstable + snapshot',
         'modules': ['top', 'prelude', 'pb', 'log_unstable', 'storage_trait', 'raft_log'],
         'body': ['log_unstable', 'storage_trait', 'config', 'util', 'raft_log'],
         'modes': ['P', 'S'],
         'claim': 'FULL (relative to the Storage trait contract, which module memstorage/C19 proves for MemStorage)',
         'decided': ['every query of Unstable and RaftLog (first/last index, term, match_term, last_term, find_conflict, find_conflict_by_term, is_up_to_date, '
                     'entries, slice, next_entries_since, has_next_entries_since, commit_info) equals the logical-log model (snapshot point + contiguous '
                     'entries; unstable wins from its offset) for every state satisfying the representation invariant',
                     'every mutator (append, truncate_and_append, maybe_append, commit_to, maybe_commit, maybe_persist, maybe_persist_snap, stable_entries, '
                     'stable_snap, restore, applied_to) transforms the model as stated, preserves the invariant (committed <= last, persisted < unstable '
                     'offset), raises persisted only to an index stable storage holds with the matching term, and never alters an entry at or below the commit '
                     'index (mode S: on every normal return, with no assumption on the arguments)',
                     'size-limited reads return limit_prefix (non-empty maximal prefix within the limit) of the model range, incl. the storage/unstable stitch '
                     'lemma'],
         'undecided': ['RaftLog::scan (FnMut callback) and all_entries (test-only) are not under contract'],
         'bounded': ['util::limit_size itself is an assumed contract in Verus; bounded Kani stand-in on the extracted text (thorough tier)'],
         'assumptions': ['the Storage implementation satisfies the trait contract of spec/storage_trait.vrs and the application keeps it so between calls',
                         'indexes/terms/sizes < 2^62, collection lengths < 2^32 (explicit requires)',
                         'entries in messages carry term > 0; (index 0, term 0) is the dummy entry',
                         'Unstable.entries_size byte accounting is cut out (R10): no property reads it',
                         'util::limit_size returns limit_prefix (assumed in Verus)']},
 'C19': {'title': 'MemStorage honours the Storage contract',
         'modules': ['top', 'prelude', 'pb', 'log_unstable', 'storage_trait', 'raft_log', 'memstorage'],
         'body': ['storage_trait', 'util', 'memstorage'],
         'modes': ['P', 'S'],
         'claim': 'FULL for the single-threaded semantics (the RwLock is modelled as the protected value)',
         'decided': ['MemStorageCore::{append, compact, apply_snapshot, commit_to, set_hardstate, set_conf_state, snapshot, first_index, last_index, '
                     'has_entry_at, commit_to_and_set_conf_states} transform / answer the model (snapshot point + contiguous entries) exactly',
                     'impl Storage for MemStorage: first_index/last_index/term/entries/snapshot/initial_state answer the model, with Compacted below first, '
                     'Unavailable above last, the snapshot term at the snapshot index, entries = limit_prefix of the range (>= 1 entry for a non-empty range), '
                     "snapshot index >= request and, at the commit index, that index's term and the stored conf state",
                     "the impl's postconditions are checked against the Storage TRAIT contract that RaftLog (C14) is verified against"],
         'undecided': ['concurrent use of the RwLock (no concurrency claim is made)'],
         'bounded': ['util::limit_size: see C14'],
         'assumptions': ['R16: Arc<RwLock<MemStorageCore>> modelled as the protected value; rl()/wl() guards dereference to it',
                         'Vec::drain(..n)/drain(n..) with the iterator dropped = remove prefix/suffix (R9); <[T]>::to_vec copies (R9)',
                         'indexes < 2^62, lengths < 2^32; a snapshot at index 0 has term 0']},
 'C20': {'title': 'No panic or internal-check failure under contract-abiding use',
         'modules': {'P': ['top', 'prelude', 'pb', 'inflights', 'progress', 'quorum', 'tracker', 'confchange', 'log_unstable', 'storage_trait', 'raft_log', 'memstorage'],
                     'S': ['top', 'prelude', 'pb', 'inflights', 'progress', 'quorum', 'tracker', 'log_unstable', 'storage_trait', 'raft_log', 'raft']},
         'body': {'P': ['inflights', 'progress', 'quorum', 'tracker', 'confchange', 'log_unstable', 'storage_trait', 'config', 'util', 'raft_log', 'memstorage'], 'S': []},
         'cone': {'S': ['raft']},
         'modes': ['P', 'S'],
         'claim': 'PARTIAL',
         'decided': ['for every function under contract (mode P: fatal!/panic!/assert!/unwrap/index/overflow sites are proof obligations) the panic sites are '
                     "unreachable under the function's stated precondition, and every call site inside a verified function establishes its callee's "
                     'precondition',
                     'mode S, raft.rs: the role transitions keep what the internal checks of RawNode::ready rely on: become_follower resets the '
                     'unpersisted-apply limit (a non-leader never hands out entries it has not persisted, so a pending snapshot excludes committed entries)'],
         'undecided': ['that the stated preconditions hold in every reachable cluster state (needs the global invariant)',
                       'functions not under contract (listed per module in DESIGN.md)'],
         'assumptions': ['see C14, C18, C19']},
 'C11': {'title': 'Quorum arithmetic: commit index and vote tallies are exact',
         'modules': ['top', 'prelude', 'pb', 'inflights', 'progress', 'quorum', 'tracker'],
         'body': ['quorum', 'tracker'],
         'modes': ['P'],
         'claim': 'FULL for the arithmetic and the heap collection path; the unsafe stack-array fast path for <= 7 voters is assumed to produce the same '
                  'listing as the (verified) heap path, and sort_by to be a sorted permutation (R10/R9)',
         'decided': ['util::majority(n) = n/2+1 (2r > n, 2(r-1) <= n)',
                     'MajorityConfig::committed_index: empty => (u64::MAX, true); without group commit the result IS the largest index acknowledged by a '
                     'majority of the voter set (count-based definition over the set, for every voter set and every ack assignment); with group commit the '
                     'result never exceeds it and, when every voter has a group and the flag is returned, equals the largest index <= the quorum index '
                     'replicated into two different groups; with a single group it is the quorum index',
                     'MajorityConfig::vote_result equals the model (Won iff yes-set is a majority, Lost iff yes+missing cannot reach one, empty => Won) for '
                     'every check function; JointConfig::{committed_index (min of the halves), vote_result (3x3 table), is_singleton, contains}',
                     'ProgressTracker::{maximal_committed_index (ack = matched, group = commit_group_id), vote_result, has_quorum, is_singleton, get} as '
                     'wrappers'],
         'undecided': ['ProgressTracker::{tally_votes counts, record_vote, quorum_recently_active} are not under contract in this revision'],
         'assumptions': ['R10: the unsafe MaybeUninit stack-array fill of committed_index (<= 7 voters) yields the same listing as the heap path, which is '
                         'verified for every size (assumed; no deductive back end here can execute the unsafe code; the replay monitor mon_c11 exercises it on '
                         'the real crate)',
                         'R9: sort_by(descending index) is a sorted permutation',
                         "crate::HashSet/HashMap (fxhash) behave like std's with a lawful hasher; vstd's HashSet/HashMap model",
                         'voter sets have < 2^32 members']},
 'C13': {'title': 'Replication flow control and well-formed append/heartbeat messages',
         'modules': ['top', 'prelude', 'pb', 'inflights', 'progress', 'quorum', 'tracker', 'log_unstable', 'storage_trait', 'raft_log', 'raft'],
         'body': {'P': ['inflights', 'progress'], 'S': ['inflights', 'progress']},
         'cone': {'P': ['log_unstable', 'raft_log'], 'S': ['log_unstable', 'raft', 'raft_log']},
         'modes': ['P', 'S'],
         'claim': "PARTIAL (every per-call clause is decided; 'toward each follower over time' is carried by the representation invariants count <= cap and by "
                  'the contracts of add/free_to, not by a history proof)',
         'decided': ['Progress: is_paused = (Probe: paused; Replicate: window full; Snapshot: always); update_state adds exactly one in-flight index '
                     '(Replicate, requires not full) or pauses (Probe); maybe_update / maybe_decr_to / become_* as modelled',
                     'RaftCore::maybe_send_append: paused on entry => returns false, msgs and progress unchanged (none while a snapshot is outstanding, none '
                     "beyond the window, none while a probe is un-acked); a pushed MsgAppend is anchored at (next_idx-1, term of that index in the leader's "
                     'own log), carries exactly limit_prefix(log[next_idx..], max_size_per_msg) (<= max bytes unless a single entry), commit == leader commit, '
                     'term == leader term; non-empty appends are registered in the progress (one more in-flight / probe paused)',
                     "send_heartbeat: commit <= leader commit and <= follower's matched index",
                     'UncommittedState: a proposal is admitted iff no limit, empty payload, nothing outstanding, or it fits; reduce never underflows',
                     'Inflights: count <= capacity always (C18 invariant)'],
         'undecided': ['try_batching (iter_mut over &mut [Message]) is an ASSUMED contract; with batch_append on, clauses about the batched message rely on it',
                       "history-level 'at most N unacknowledged toward each follower over time' is not lifted from the per-call contracts"],
         'bounded': ['try_batching: K-extracted bounded harness (thorough tier, when built)'],
         'assumptions': ["C14's RaftLog contracts (proved there)",
                         'RaftCore functions are verified in mode S (fatal!/panic! abort): clauses hold on every normal return']},
 'C03': {'title': 'Leader completeness and the election restriction',
         'modules': ['top', 'prelude', 'pb', 'inflights', 'progress', 'quorum', 'tracker', 'log_unstable', 'storage_trait', 'raft_log', 'raft'],
         'body': {'P': ['log_unstable', 'raft_log'], 'S': ['log_unstable', 'raft_log']},
         'modes': ['P', 'S'],
         'claim': 'PARTIAL (second sentence of the statement: the election restriction, per call)',
         'decided': ["Raft::step: every Msg(Pre)VoteResponse with reject == false pushed while handling a (pre-)vote request implies that the candidate's "
                     "(log_term, index) is lexicographically >= the voter's own (last_term, last_index), in every role and state; no other message type makes "
                     'step emit a grant',
                     'RaftLog::is_up_to_date / last_term / last_index equal the model (C14)',
                     'maybe_commit_by_vote moves the commit index only through RaftLog::maybe_commit (term of that index must match) and keeps term and vote',
                     "campaign / poll: every (pre-)vote request advertises the candidate's own (last_index, last_term, commit); a candidate counts only "
                     'MsgRequestVoteResponse and a pre-candidate only MsgRequestPreVoteResponse (a response of the other kind changes nothing); the poll '
                     'result is exactly the tally of the recorded votes (first vote of a voter sticks); state Leader is entered only from poll on Won'],
         'undecided': ['leader completeness (first sentence): needs the cluster-wide induction over all schedules',
                       'step_leader / step_follower are ASSUMED not to emit grants and to ignore stray vote responses (their bodies are not under contract in '
                       'this revision)'],
         'assumptions': ['raft.rs functions are verified in mode S (fatal!/panic! abort): clauses hold on every normal return',
                         'assumed handler contract step_frame (term monotone, one vote per term, msgs append-only, no grants)'],
         'cone': {'P': [], 'S': ['raft']}},
 'C06': {'title': 'Promises survive crashes: persist-before-send, one vote per term',
         'modules': ['top', 'prelude', 'pb', 'inflights', 'progress', 'quorum', 'tracker', 'log_unstable', 'storage_trait', 'raft_log', 'raft', 'raw_node'],
         'body': {'S': []},
         'modes': ['S'],
         'claim': 'PARTIAL (per-call: term monotone, one vote per term, restart state; the release discipline of Ready is added with the raw_node unit)',
         'decided': ["Raft::step: term never decreases; within a term the vote changes only from 'none' and, for vote requests, only to the requesting "
                     'candidate of a real vote at that term',
                     'reset/become_follower/become_candidate/become_pre_candidate: vote is cleared only together with a term change; a candidate votes for '
                     'itself in the new term; a pre-candidate keeps term and vote',
                     'load_state installs exactly the stored (term, vote, commit) and aborts on a commit outside [committed, last]',
                     'RaftCore::send only fills from/term/priority and pushes exactly one message',
                     "release discipline of ready(): a non-leader's messages are all persisted_messages(); messages released for immediate sending (leader) "
                     'are never released in a Ready that also carries a term or vote change (finding F1, fixed in /repo)'],
         'undecided': ["'never behind anything it has told another node' across a crash: a statement about the application's write/fsync/send order",
                       'role handlers are assumed to satisfy step_frame'],
         'assumptions': ['mode S', 'assumed handler contract step_frame', 'R10: the iter_mut loop of reset is assumed to reset every progress as written'],
         'cone': {'S': ['raft', 'raw_node']}},
 'C16': {'title': 'PreVote + CheckQuorum: a node that cannot win does not disrupt the cluster',
         'modules': ['top', 'prelude', 'pb', 'inflights', 'progress', 'quorum', 'tracker', 'log_unstable', 'storage_trait', 'raft_log', 'raft'],
         'body': {'S': []},
         'modes': ['S'],
         'claim': 'PARTIAL (first sentence and the lease rule, per call)',
         'decided': ["Raft::step with a MsgRequestPreVote never changes the receiver's term or vote, in any state",
                     'lease rule: a (pre-)vote request with a higher term and without the transfer context, arriving while check_quorum && a leader is known '
                     '&& election_elapsed < election_timeout, returns Ok with NO field of the node changed and no message pushed',
                     'become_pre_candidate keeps term and vote',
                     'a granted pre-vote response never makes a node adopt the (future) term it carries: the term changes only for a pre-candidate (by '
                     'winning); poll: unless the result is Won, term and vote are unchanged; campaign(PRE_ELECTION) that leaves the node a pre-candidate keeps '
                     'term and vote'],
         'undecided': ['non-disruption of a lock-step majority over all schedules of the minority (second sentence)',
                       'step_leader / step_follower are assumed to ignore pre-vote responses'],
         'assumptions': ['mode S', 'assumed handler contract step_frame'],
         'cone': {'S': ['raft']}},
 'C07': {'title': 'Ready contract: exact, ordered, persisted-only hand-off of entries',
         'modules': ['top', 'prelude', 'pb', 'inflights', 'progress', 'quorum', 'tracker', 'log_unstable', 'storage_trait', 'raft_log', 'raft', 'raw_node'],
         'body': {'P': ['log_unstable', 'raft_log'], 'S': ['log_unstable', 'raft_log', 'raw_node']},
         'modes': ['P', 'S'],
         'claim': "PARTIAL (every per-call clause of ready/has_ready/gen_light_ready; the lifetime 'exactly once' statement is not lifted from them)",
         'decided': ['has_ready() is true exactly when ready() would return something: both equal the same spec function of the node state',
                     'ready(): entries = the whole unstable suffix; hs = Some(current (term, vote, commit)) iff it differs from the last one handed out; '
                     'must_sync whenever entries, a snapshot, or a term/vote change are included; with a pending snapshot no committed entries are handed out '
                     'and commit_since_index jumps to the snapshot index; a record (number, last entry, snapshot) is pushed',
                     'gen_light_ready(): committed entries = limit_prefix(log[max(since+1, first) ..= min(committed, persisted + limit)], '
                     'max_committed_size_per_ready): contiguous, starting right after commit_since_index (given first <= since+1), never beyond min(committed, '
                     'persisted + max_apply_unpersisted_log_limit); commit_since_index advances to the last handed index; messages are moved out exactly once',
                     'RaftLog::next_entries_since / has_next_entries_since / applied_index_upper_bound equal the model (C14)'],
         'undecided': ["'over a node's lifetime exactly its committed log, no gap or duplicate' as a history statement (the per-call clauses chain, the "
                       'induction is not mechanised)',
                       'commit_ready / on_persist_ready / advance_append are not under contract in this revision',
                       'the two asserts inside the records.drain(..) loop at the follower->leader edge (R10 cut)'],
         'assumptions': ['raw_node.rs functions are verified in mode S', 'payload-size sums fit in usize'],
         'cone': {'P': [], 'S': []}},
 'C05': {'title': 'Log matching; leaders append-only; committed prefix immutable',
         'modules': ['top', 'prelude', 'pb', 'inflights', 'progress', 'quorum', 'tracker', 'log_unstable', 'storage_trait', 'raft_log', 'raft'],
         'body': {'P': ['log_unstable', 'raft_log'], 'S': ['log_unstable', 'raft_log']},
         'modes': ['P', 'S'],
         'claim': 'PARTIAL (per node and per call: acceptance rule, truncation point, immutability of the committed prefix)',
         'decided': ['RaftLog::maybe_append accepts iff (prev index, prev term) matches, truncates only from the first conflicting index, keeps every entry at '
                     'or below the commit index (mode S: on every normal return with NO assumption on the message: a conflict at or below the commit index '
                     'aborts instead of truncating), lowers persisted below the conflict, holds the new entries afterwards',
                     "RaftLog::append / Unstable::truncate_and_append: log' = log[..after) ++ ents; nothing below the first appended index changes",
                     'Raft::handle_append_entries: exactly one reply; accepted iff match, reply index = last new index; a rejection leaves the log unchanged '
                     'and carries a hint (index <= min(m.index, last), term of that index <= m.log_term); the committed prefix is never altered',
                     'find_conflict / find_conflict_by_term equal the model (C14)'],
         'undecided': ["the pairwise statement over two nodes' logs (log matching proper)",
                       "'a leader never removes or rewrites an entry of its own log while it leads' as a history statement (append_entry is not under contract "
                       'in this revision)'],
         'assumptions': ['mode S for raft.rs', 'message shape: contiguous entries with term > 0 (what peers running this library send)'],
         'cone': {'P': [], 'S': ['raft']}},
 'C04': {'title': 'Commit rule: only own-term entries that are durable on a quorum',
         'modules': ['top', 'prelude', 'pb', 'inflights', 'progress', 'quorum', 'tracker', 'log_unstable', 'storage_trait', 'raft_log', 'raft', 'raw_node'],
         'body': {'P': ['quorum', 'tracker', 'log_unstable', 'raft_log'], 'S': ['quorum', 'tracker', 'log_unstable', 'raft_log']},
         'cone': {'P': ['progress'], 'S': ['progress', 'raft', 'raw_node']},
         'modes': ['P', 'S'],
         'claim': 'PARTIAL (leader-side rule per call; follower-side bounds per call)',
         'decided': ['Raft::maybe_commit advances the commit index only to an index <= the quorum index of the active (joint) configuration over the progress '
                     "map's matched indexes (C11) whose entry carries the leader's current term (RaftLog::maybe_commit)",
                     "the leader's own matched index is written only by reset (= persisted) and by on_persist_entries (to the index the log just accepted as "
                     'persisted); maybe_persist refuses indexes at or beyond the first not-yet-written update and requires the stored term to match',
                     'RawNode::on_persist_ready consumes exactly the leading records whose number is <= the notified one (acked_len), reports only what '
                     'those records hold (fold_records), and changes nothing when the notice is below the oldest record; commit_ready / advance_append_async '
                     'never move the persisted index or the progress map; advance_append acknowledges up to max_number',
                     'follower: maybe_append / handle_append_entries never commit beyond min(leader commit, last new index); handle_heartbeat never beyond '
                     'm.commit; heartbeats advertise commit <= matched'],
         'undecided': ["'a non-leader's commit index never moves beyond an index some leader committed' and survival under minority crash (global)"],
         'assumptions': ['mode S for raft.rs and raw_node.rs', 'VecDeque::front/back: standard semantics assumed (no vstd spec)', 'ProgressTracker::get_mut assumed (HashMap::get_mut has no vstd spec)', 'R10/R9 of C11']},
 'C12': {'title': 'Configuration-change algebra keeps invariants and quorum overlap',
         'modules': ['top', 'prelude', 'pb', 'inflights', 'progress', 'quorum', 'tracker', 'confchange'],
         'body': ['confchange'],
         'cone': ['quorum', 'tracker'],
         'modes': ['P'],
         'claim': 'PROOF for Changer::{simple, enter_joint, leave_joint}, ProgressTracker::apply_conf, confchange::restore (partial correctness: IF it succeeds it '
                  'reproduces the configuration the ConfState describes) and the quorum-overlap lemmas; Configuration::to_conf_state is not under contract',
         'decided': ['IncrChangeMap::contains: the LATEST logged change of an id decides (icm_dom); check_invariants returns Ok IFF cfg_checked (the stated '
                     'disjointness / staging / tracking conditions), for every configuration and change log',
                     'Changer::apply is the left fold of the reference step function sp_apply_one over the change list and rejects exactly the results without '
                     'incoming voters; make_voter / make_learner / remove / init_progress equal their reference steps',
                     'simple / enter_joint / leave_joint: the returned configuration is the stated function of the tracker configuration and the change list; '
                     'from a configuration satisfying cfg_inv (voters and learners disjoint, staged learners inside the outgoing voters, progress for EXACTLY '
                     'the members, nothing staged / no auto-leave outside joint) the result satisfies cfg_inv again, has an incoming voter, simple changes the '
                     'incoming voters by at most one member and is refused while joint; legal simple changes are accepted; a refused change cannot touch the '
                     'tracker (the methods take &self / return new values: checked by the borrow discipline)',
                     'ProgressTracker::apply_conf installs the configuration and the progress-map domain becomes icm_dom(changes); untouched entries keep '
                     'their Progress',
                     'confchange::to_conf_change_single produces exactly the two stated change lists; confchange::restore from an empty tracker and a consistent ConfState '
                     '(sets disjoint / staged inside outgoing, no id 0): if it returns Ok the tracker configuration equals the five sets of the ConfState (auto_leave '
                     'included) and progress is tracked for exactly its members (replay lemmas over the reference step function, four phases)',
                     'lemma_c12_{simple,enter_joint,leave_joint}_overlap: a deciding set (strict majority of incoming, and of outgoing when joint) before the '
                     'change shares a voter with any deciding set after it, for the result shapes the three contracts establish'],
         'undecided': ['that restore never FAILS on the ConfState of a reachable configuration, and Configuration::to_conf_state itself (HashSet -> Vec collect): only the bounded '
                       'monitor mon_c12 exercises the full round trip through Raft::new',
                       'that callers (Raft::apply_conf_change) only pass configurations satisfying cfg_inv (needs the invariant over the whole run)'],
         'assumptions': ['std iterator adapters rfind / extend / drain / symmetric_difference().count() / Union::iter as specified helpers (R9)',
                         'derive(Clone) of tracker::Configuration copies the sets (R9)', 'protobuf ConfChangeSingle / ConfChangeType stubs']},
 'C15': {'title': 'Snapshot install and log compaction preserve state and safety',
         'modules': ['top', 'prelude', 'pb', 'inflights', 'progress', 'quorum', 'tracker', 'log_unstable', 'storage_trait', 'raft_log', 'raft'],
         'body': {'P': ['log_unstable', 'raft_log', 'progress'], 'S': ['log_unstable', 'raft_log', 'progress']},
         'modes': ['P', 'S'],
         'claim': 'PARTIAL (install decision, log/commit effect, leader-side send/resume rules; configuration rebuild is assumed until the membership unit)',
         'decided': ['Raft::restore: returns false with nothing changed if the snapshot is behind the commit index or does not list the node; if (index, term) '
                     'matches the log and no snapshot was requested it only commits up to the index and discards nothing; otherwise RaftLog::restore: commit = '
                     'index, boundary term = snapshot term, later appends continue at index+1, pending request cleared',
                     'RaftLog::restore / Unstable::restore equal the model; persisted is lowered to the old commit index',
                     'leader: maybe_send_append sends MsgSnapshot only if the follower asked for one or the term/entries it needs are unavailable, and then '
                     'moves the progress to Snapshot(index); become_probe after a snapshot resumes at max(matched, pending_snapshot)+1'],
         'undecided': ["equality of application state; 'compaction changes no other guarantee'",
                       'the configuration rebuilt from the snapshot (confchange::restore, post_conf_change) is an assumed contract in this revision',
                       'handle_snapshot_status / handle_append_response are not under contract in this revision'],
         'assumptions': ['mode S for raft.rs', 'R9: the iterator chain membership test of Raft::restore; R10: its untested tail'],
         'cone': {'P': [], 'S': ['raft']}},
 'C09': {'title': 'Membership changes: one at a time, config is a function of applied log',
         'modules': ['top', 'prelude', 'pb', 'inflights', 'progress', 'quorum', 'tracker', 'log_unstable', 'storage_trait', 'raft_log', 'raft'],
         'body': {'S': []},
         'modes': ['S'],
         'claim': 'PARTIAL (election-side clauses only in this revision: (b) and (d) of DESIGN.md section 5/C09)',
         'decided': ['hup: a leader ignores it; no campaign starts while a committed membership change is unapplied (the range (applied or pending snapshot, '
                     'committed] holds a conf-change entry): the node is left completely unchanged',
                     'tick_election never steps MsgHup when the node is not promotable (only election_elapsed changes) or before the randomized timeout',
                     'become_leader conservatively sets pending_conf_index to the last index of its log and appends exactly one entry of its own term'],
         'undecided': ["the proposal filter of step_leader/MsgPropose, commit_apply's auto-leave proposal, apply_conf_change/post_conf_change (promotable = "
                       'voter) and the function-of-applied-log statement are not under contract in this revision',
                       "'a leader's log never holds more than one unapplied membership entry' across leader changes (cluster-level)"],
         'assumptions': ['mode S',
                         'has_unapplied_conf_changes is an ASSUMED contract (RaftLog::scan takes an FnMut): it reports exactly whether the range holds a '
                         'conf-change entry'],
         'cone': {'S': ['raft']}},
 'C17': {'title': 'Leadership transfer hands off safely and never wedges the leader',
         'modules': ['top', 'prelude', 'pb', 'inflights', 'progress', 'quorum', 'tracker', 'log_unstable', 'storage_trait', 'raft_log', 'raft'],
         'body': {'S': []},
         'modes': ['S'],
         'claim': 'PARTIAL (every leader-side per-call clause; the healthy-cluster completion sentence is not decided)',
         'decided': ["MsgTimeoutNow is pushed only by handle_transfer_leader and by the tail of handle_append_response, and only when the target's matched "
                     "index equals the leader's last index (and, in handle_append_response, the response came from the pending transfer target and was not a "
                     'rejection)',
                     'step_leader/MsgPropose with a pending transfer returns ProposalDropped with the node completely unchanged',
                     'handle_transfer_leader: a request naming an untracked id or a learner changes nothing; naming the leader itself changes at most '
                     'lead_transferee (to None); a repeated request for the pending target changes nothing; a new target is recorded and the election clock '
                     'restarts',
                     'tick_heartbeat clears the transfer when election_elapsed reaches election_timeout (if the node is still leader); no tick starts a '
                     'transfer; reset / become_follower / become_leader clear it'],
         'undecided': ["'when a transfer completes in a healthy cluster the target leads a higher term ... old leader follows' (multi-node, "
                       'liveness-flavoured)',
                       'post_conf_change aborting the transfer when the target leaves the voters is an assumed contract in this revision'],
         'assumptions': ['mode S', 'assumed contracts: bcast_append, bcast_heartbeat, check_quorum_active, ProgressTracker::get_mut'],
         'cone': {'S': ['raft']}},
 'C08': {'title': 'ReadIndex (Safe mode) is linearizable',
         'modules': ['top', 'prelude', 'pb', 'inflights', 'progress', 'quorum', 'tracker', 'log_unstable', 'storage_trait', 'raft_log', 'raft'],
         'body': {'S': []},
         'cone': {'S': ['quorum', 'raft', 'tracker']},
         'modes': ['S'],
         'claim': 'PARTIAL (leader- and requester-side per-call clauses over an abstract model of the pending-read table)',
         'decided': ["step_leader/MsgReadIndex: dropped with nothing changed unless the entry at the commit index carries the leader's own term",
                     'handle_heartbeat_response releases read states (locally or as MsgReadIndexResp) only in Safe mode, for a non-empty context that is '
                     'pending, and only if the ack set of that context including the responder contains a majority of each voter set (has_quorum, C11)',
                     'handle_ready_read_index: a request that originated locally (from == 0 or self) becomes a ReadState with the given index; any other '
                     'request is answered by a MsgReadIndexResp to req.from only, carrying that index',
                     'reset drops all pending reads'],
         'undecided': ['the index is >= every commit index reached anywhere at request time; the stale-leader clause (both need leader completeness + '
                       'real-time order)',
                       'ReadOnly::{add_request, recv_ack, advance} are ASSUMED contracts over an abstract model (HashMap keyed by Vec<u8> has no key model in '
                       'vstd)'],
         'assumptions': ['mode S', 'abstract ReadOnly model (spec/raft.vrs read_only_types)']}}
