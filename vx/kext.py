"""K-ext: bounded Kani harnesses over mechanically extracted REAL function text (never counted as proved).

A template (spec/kani/*.krs) is plain Rust with stub types plus directives
    //@K fn <source file> <Type::name | name>
    //@K   replace "source text" => "new text"
    //@K end
which are replaced, on every run, by the function's text from the repository (attributes dropped, log macros dropped,
fatal!/panic!/assert! turned into aborts exactly as in mode S of the Verus extraction).  Bounds are stated per harness.
"""
import json
import os
import re
import subprocess
import sys
import time

sys.path.insert(0, os.path.dirname(os.path.abspath(__file__)))
import rustlex
from gen import Rewriter, AnchorLost, _parse_quoted, strip_inner_attrs

ROOT = os.path.dirname(os.path.dirname(os.path.abspath(__file__)))

# harnesses per property: template, harness fn, stated bound, what the real text is checked against
HARNESSES = {
    "C13": [{"template": "c13_batching.krs", "harness": "c13_try_batching", "unwind": 6,
             "functions": ["raft::RaftCore::try_batching", "util::is_continuous_ents"],
             "bound": "an outbox of 2 messages (any type, receiver 1 or 2, anchored contiguous entries, 0..=2 each) and 0..=2 new contiguous entries starting at any index < 100 (Kani); natively: every such case with indexes < 8 and runs of 0..=3 entries",
             "native": {"dom8": 4, "dom64": 8},
             "claim": "after try_batching every MsgAppend in the outbox is still a contiguous run of entries anchored at its own index (entries[k].index == msg.index + 1 + k)",
             "obligation": "C13.kext.try_batching.anchored_contiguous"}],
    # leader completeness (C03) rests on matched indexes that are true, i.e. on acknowledgements of well-formed appends: same harness, native back end only
    "C03": [{"template": "c13_batching.krs", "harness": "c13_try_batching", "unwind": 6, "kani": False,
             "functions": ["raft::RaftCore::try_batching", "util::is_continuous_ents"],
             "bound": "natively: an outbox of 2 messages (any type, receiver 1 or 2, anchored contiguous entries, 0..=3 each) and 0..=3 new contiguous entries, all indexes < 8 (the Kani run of this harness belongs to C13)",
             "native": {"dom8": 4, "dom64": 8},
             "claim": "after try_batching every MsgAppend in the outbox is still a contiguous run of entries anchored at its own index (entries[k].index == msg.index + 1 + k)",
             "obligation": "C13.kext.try_batching.anchored_contiguous"}],
    # log matching between nodes (C05) rests on every MsgAppend being a contiguous run anchored at its own index: same harness
    "C05": [{"template": "c13_batching.krs", "harness": "c13_try_batching", "unwind": 6, "kani": False,
             "functions": ["raft::RaftCore::try_batching", "util::is_continuous_ents"],
             "bound": "an outbox of 2 messages (any type, receiver 1 or 2, anchored contiguous entries, 0..=2 each) and 0..=2 new contiguous entries starting at any index < 100 (Kani); natively: every such case with indexes < 8 and runs of 0..=3 entries",
             "native": {"dom8": 4, "dom64": 8},
             "claim": "after try_batching every MsgAppend in the outbox is still a contiguous run of entries anchored at its own index (entries[k].index == msg.index + 1 + k)",
             "obligation": "C13.kext.try_batching.anchored_contiguous"}],
    "C09": [{"template": "c09_scan.krs", "harness": "c09_has_unapplied_conf_changes", "unwind": 5,
             "functions": ["raft_log::RaftLog::scan", "raft::Raft::has_unapplied_conf_changes"],
             "bound": "logs of at most 3 entries: every assignment of entry types, every lo <= hi <= 3, every page split of the scan",
             "claim": "has_unapplied_conf_changes(lo, hi) == (applied < committed && some entry in [lo, hi) is a membership change)",
             "obligation": "C09.kext.has_unapplied_conf_changes.def"}],
}


def extract(repo, template, out_path):
    lines = open(os.path.join(ROOT, "spec", "kani", template)).read().split("\n")
    out, i, fns = [], 0, []
    while i < len(lines):
        ln = lines[i]
        mu = re.match(r"\s*//@K fns-used (\S+) (\S+)\s*$", ln)
        if mu:
            # placeholder, resolved after the explicit extractions: every free function of <file> that the extracted texts call as <prefix>name(
            out.append(("USED", mu.group(1), mu.group(2)))
            i += 1
            continue
        m = re.match(r"\s*//@K fn (\S+) (\S+)\s*$", ln)
        if not m:
            out.append(ln)
            i += 1
            continue
        rel, qual = m.group(1), m.group(2)
        reps = []
        i += 1
        while not re.match(r"\s*//@K end", lines[i]):
            m2 = re.match(r"\s*//@K\s+replace\s+(.*)$", lines[i])
            if m2:
                pat, rest = _parse_quoted(m2.group(1))
                rest = rest.strip()
                assert rest.startswith("=>")
                rep, _ = _parse_quoted(rest[2:].strip())
                reps.append((pat, rep))
            i += 1
        i += 1
        src = open(os.path.join(repo, rel)).read()
        ty, name = qual.split("::") if "::" in qual else (None, qual)
        it = rustlex.find_item(src, "fn", name, impl_of=ty, trait_of="" if ty else None)
        if it is None:
            it = rustlex.find_item(src, "fn", name, impl_of=ty)
        if it is None or it.body_open is None:
            raise AnchorLost("fn %s not found in %s" % (qual, rel))
        text = src[it.hdr_start:it.body_close + 1]
        for pat, rep in reps:
            if pat not in text:
                raise AnchorLost("fn %s: %r not found" % (qual, pat))
            text = text.replace(pat, rep)
        text = Rewriter("S").rewrite(text)
        text = re.sub(r"\bpub\(crate\) ", "pub ", text)
        out.append("// ---- extracted from %s (line %d)" % (rel, src.count("\n", 0, it.hdr_start) + 1))
        out.append(text)
        fns.append({"fn": qual, "source": rel, "line": src.count("\n", 0, it.hdr_start) + 1})
    # resolve fns-used placeholders (transitively, within the named file)
    texts = "\n".join(x for x in out if isinstance(x, str))
    res = []
    for x in out:
        if isinstance(x, str):
            res.append(x)
            continue
        _, rel, prefix = x
        src = open(os.path.join(repo, rel)).read()
        done, todo, chunk = set(), [], []
        scan = texts
        while True:
            for nm in re.findall(re.escape(prefix) + r"(\w+)\s*\(", scan):
                if nm not in done:
                    done.add(nm)
                    todo.append(nm)
            if not todo:
                break
            nm = todo.pop(0)
            it = rustlex.find_item(src, "fn", nm, impl_of=None)
            if it is None or it.body_open is None:
                raise AnchorLost("fn %s (called as %s%s) not found in %s" % (nm, prefix, nm, rel))
            text = Rewriter("S").rewrite(src[it.hdr_start:it.body_close + 1])
            text = re.sub(r"\bpub\(crate\) ", "pub ", text)
            chunk.append("// ---- extracted from %s (line %d): called by the extracted text" % (rel, src.count("\n", 0, it.hdr_start) + 1))
            chunk.append(text)
            fns.append({"fn": nm, "source": rel, "line": src.count("\n", 0, it.hdr_start) + 1})
            scan = text.replace("fn " + nm, "")
            # calls inside the same file are unqualified
            for nm2 in re.findall(r"\b(\w+)\s*\(", scan):
                if nm2 not in done and rustlex.find_item(src, "fn", nm2, impl_of=None) is not None and nm2 not in ("Some", "Ok", "Err"):
                    pass
        res.extend(chunk)
    out = res
    os.makedirs(os.path.dirname(out_path), exist_ok=True)
    open(out_path, "w").write("\n".join(out))
    return fns


def run(P, repo, build_dir, timeout=600, tier="quick"):
    """-> list of result dicts: status in ok | fail | undecided"""
    res = []
    for h in HARNESSES.get(P, []):
        r = dict(h)
        t0 = time.time()
        path = os.path.join(build_dir, "kani", h["template"].replace(".krs", ".rs"))
        try:
            r["extracted"] = extract(repo, h["template"], path)
        except AnchorLost as e:
            r.update(status="undecided", reason="extractor anchor lost: %s" % e)
            res.append(r)
            continue
        hn = dict(h)
        if tier == "thorough":
            # larger enumerated domains in the thorough tier
            hn["native"] = dict(h.get("native", {}), dom64=12, dom8=5, max_runs=2000000000)
        r["native"] = native(path, hn, timeout=900 if tier == "thorough" else 300)
        if r["native"]["status"] == "fail":
            # a concrete failing input on the extracted real text: decisive, whatever Kani says
            r.update(status="fail", failed=[h["obligation"] + " (native exhaustive enumeration)"], output=r["native"]["input"], cmd=r["native"]["cmd"])
            res.append(r)
            continue
        if h.get("kani") is False:
            # this property relies on the native back end only (the symbolic run of the same harness is part of another property's check)
            r.update(status=r["native"]["status"], reason=r["native"].get("reason", ""), wall_s=r["native"].get("wall_s"), cmd=r["native"].get("cmd"))
            res.append(r)
            continue
        cmd = ["kani", os.path.basename(path), "--harness", h["harness"]]
        try:
            p = subprocess.run(cmd, cwd=os.path.dirname(path), stdout=subprocess.PIPE, stderr=subprocess.STDOUT, timeout=timeout,
                               env=dict(os.environ, CARGO_NET_OFFLINE="true"))
            out = p.stdout.decode(errors="replace")
        except subprocess.TimeoutExpired:
            r.update(status="undecided", reason="kani timed out after %ds" % timeout)
            res.append(r)
            continue
        r["wall_s"] = round(time.time() - t0, 1)
        r["cmd"] = "cd %s && %s" % (os.path.dirname(path), " ".join(cmd))
        m = re.search(r"\*\* (\d+) of (\d+) failed", out)
        covers = re.findall(r"\*\* (\d+) of (\d+) cover properties satisfied", out)
        failed = re.findall(r"Failed Checks: (.*)", out)
        if "VERIFICATION:- SUCCESSFUL" in out:
            r["status"] = "ok"
            m2 = re.search(r"\*\* 0 of (\d+) failed", out)
            r["checks"] = int(m2.group(1)) if m2 else None
            if covers and covers[0][0] != covers[0][1]:
                r.update(status="undecided", reason="vacuity guard: only %s of %s cover properties reachable" % covers[0])
        elif "VERIFICATION:- FAILED" in out:
            # an unwinding assertion failing means the stated bound was not enough: undecided, not a violation
            if any("unwinding assertion" in f for f in failed) and not any(h["obligation"] in f for f in failed):
                r.update(status="undecided", reason="unwinding bound exceeded: " + "; ".join(failed)[:300])
            elif any(h["obligation"] in f for f in failed):
                r.update(status="fail", failed=failed, output=out[-3000:])
            else:
                r.update(status="undecided", reason="kani reported other failed checks: " + "; ".join(failed)[:300])
        else:
            r.update(status="undecided", reason="kani did not finish: " + out[-400:])
        res.append(r)
    return res


NATIVE_SHIM = r"""
// ---- native exhaustive back end (vx/kext.py): the Kani API over small enumerated domains; every run replays a choice vector
#[allow(unused)]
mod kani {
    use std::cell::RefCell;
    thread_local! { pub static CH: RefCell<(Vec<(u64, u64)>, usize)> = RefCell::new((vec![], 0)); }
    pub struct Abort;
    pub fn choose(n: u64) -> u64 { CH.with(|c| { let mut c = c.borrow_mut(); let pos = c.1; if pos == c.0.len() { c.0.push((0, n)); } c.1 += 1; c.0[pos].0 }) }
    pub trait Arbitrary { fn any() -> Self; }
    impl Arbitrary for bool { fn any() -> bool { choose(2) == 1 } }
    impl Arbitrary for u8 { fn any() -> u8 { choose(__DOM8__) as u8 } }
    impl Arbitrary for u64 { fn any() -> u64 { choose(__DOM64__) } }
    impl Arbitrary for usize { fn any() -> usize { choose(__DOM8__) as usize } }
    pub fn any<T: Arbitrary>() -> T { T::any() }
    pub fn assume(c: bool) { if !c { std::panic::resume_unwind(Box::new(Abort)); } }
    macro_rules! cover { ($($t:tt)*) => { () }; }
    pub(crate) use cover;
}
fn main() {
    std::panic::set_hook(Box::new(|_| {}));
    let mut runs: u64 = 0; let mut kept: u64 = 0;
    loop {
        kani::CH.with(|c| c.borrow_mut().1 = 0);
        let r = std::panic::catch_unwind(|| { __HARNESS__(); });
        runs += 1;
        match r {
            Ok(()) => kept += 1,
            Err(e) => if e.downcast_ref::<kani::Abort>().is_none() {
                let msg = e.downcast_ref::<String>().cloned().or_else(|| e.downcast_ref::<&str>().map(|s| s.to_string())).unwrap_or_default();
                let choices: Vec<u64> = kani::CH.with(|c| c.borrow().0.iter().map(|x| x.0).collect());
                println!("NATIVE-FAIL runs={} choices={:?} panic={:?}", runs, choices, msg);
                std::process::exit(1);
            }
        }
        let done = kani::CH.with(|c| { let mut c = c.borrow_mut(); let used = c.1; c.0.truncate(used); while let Some(&(v, n)) = c.0.last() { if v + 1 >= n { c.0.pop(); } else { break; } } match c.0.last_mut() { Some(x) => { x.0 += 1; false } None => true } });
        if done { break; }
        if runs > __MAXRUNS__ { println!("NATIVE-LIMIT runs={}", runs); std::process::exit(2); }
    }
    println!("NATIVE-OK runs={} completed={}", runs, kept);
}
"""


def native(path, h, timeout=300):
    """Second bounded back end: compile the SAME extracted file against a shim of the Kani API that enumerates small domains
    exhaustively (u64: 0..dom64, u8/usize: 0..dom8, bool) and run it natively.  -> dict(status ok|fail|undecided, ...)"""
    src = open(path).read()
    src = re.sub(r"#\[kani::[^\]]*\]\s*", "", src)
    dom = h.get("native", {})
    shim = (NATIVE_SHIM.replace("__DOM8__", str(dom.get("dom8", 4))).replace("__DOM64__", str(dom.get("dom64", 8)))
            .replace("__HARNESS__", h["harness"]).replace("__MAXRUNS__", str(dom.get("max_runs", 20000000))))
    npath = path.replace(".rs", "_native.rs")
    open(npath, "w").write(src + "\n" + shim)
    exe = npath[:-3]
    t0 = time.time()
    try:
        p = subprocess.run(["rustc", "--edition", "2021", "-O", "-A", "warnings", os.path.basename(npath), "-o", os.path.basename(exe)], cwd=os.path.dirname(npath),
                           stdout=subprocess.PIPE, stderr=subprocess.STDOUT, timeout=timeout)
        if p.returncode != 0:
            return {"status": "undecided", "reason": "native build failed: " + p.stdout.decode(errors="replace")[-400:]}
        q = subprocess.run([exe], stdout=subprocess.PIPE, stderr=subprocess.STDOUT, timeout=timeout)
        out = q.stdout.decode(errors="replace").strip().splitlines()
        last = out[-1] if out else ""
    except subprocess.TimeoutExpired:
        return {"status": "undecided", "reason": "native enumeration timed out after %ds" % timeout}
    r = {"wall_s": round(time.time() - t0, 1), "cmd": "cd %s && rustc --edition 2021 -O %s && ./%s" % (os.path.dirname(npath), os.path.basename(npath), os.path.basename(exe)),
         "domain": "u64 choices 0..%d, u8/usize choices 0..%d, bool; every combination the harness's own assumptions admit" % (dom.get("dom64", 8), dom.get("dom8", 4))}
    if last.startswith("NATIVE-OK"):
        m = re.search(r"runs=(\d+) completed=(\d+)", last)
        r.update(status="ok", runs=int(m.group(1)), completed=int(m.group(2)))
        if int(m.group(2)) == 0:
            r.update(status="undecided", reason="vacuity guard: no run survived the harness's assumptions")
    elif last.startswith("NATIVE-FAIL"):
        r.update(status="fail", input=last)
    else:
        r.update(status="undecided", reason="native enumeration did not finish: " + last[:300])
    return r


def playback(r, timeout=600):
    """Concrete counterexample of a failed harness (Kani concrete playback), as text; None if Kani gives none."""
    try:
        d, cmd = r["cmd"].split(" && ")
        p = subprocess.run(cmd.split() + ["-Z", "concrete-playback", "--concrete-playback=print"], cwd=d[3:], stdout=subprocess.PIPE,
                           stderr=subprocess.STDOUT, timeout=timeout, env=dict(os.environ, CARGO_NET_OFFLINE="true"))
        out = p.stdout.decode(errors="replace")
        for blk in re.findall(r"```\n(.*?)```", out, re.S):
            if r["obligation"] in blk:
                return {"monitor": "kani concrete playback of " + r["harness"], "input": blk, "observed": r["claim"] + " fails", "cmd": r["cmd"]}
    except Exception:
        pass
    return None


if __name__ == "__main__":
    P = sys.argv[1]
    repo = os.environ.get("VERIF_REPO", "/repo")
    for r in run(P, repo, os.path.join(ROOT, "build", P)):
        r.pop("output", None)
        print(json.dumps(r, indent=1))
