"""K-ext: bounded Kani harnesses over mechanically extracted REAL function text (never counted as proved).

A template (spec/kani/*.krs) is plain Rust with stub types plus directives
    //@K fn <source file> <Type::name | name>
    //@K   replace "source text" => "new text"
    //@K end
which are replaced, on every run, by the function's text from the repository (attributes dropped, log macros dropped,
fatal!/panic!/assert! turned into aborts exactly as in mode S of the Verus extraction).  Bounds are stated per harness.
"""
import json
import os
import re
import subprocess
import sys
import time

sys.path.insert(0, os.path.dirname(os.path.abspath(__file__)))
import rustlex
from gen import Rewriter, AnchorLost, _parse_quoted, strip_inner_attrs

ROOT = os.path.dirname(os.path.dirname(os.path.abspath(__file__)))

# harnesses per property: template, harness fn, stated bound, what the real text is checked against
HARNESSES = {
    "C13": [{"template": "c13_batching.krs", "harness": "c13_try_batching", "unwind": 6,
             "functions": ["raft::RaftCore::try_batching", "util::is_continuous_ents"],
             "bound": "an outbox of 2 messages (any type, receiver 1 or 2, anchored contiguous entries, 0..=2 each) and 0..=2 new contiguous entries starting at any index",
             "claim": "after try_batching every MsgAppend in the outbox is still a contiguous run of entries anchored at its own index (entries[k].index == msg.index + 1 + k)",
             "obligation": "C13.kext.try_batching.anchored_contiguous"}],
    "C09": [{"template": "c09_scan.krs", "harness": "c09_has_unapplied_conf_changes", "unwind": 5,
             "functions": ["raft_log::RaftLog::scan", "raft::Raft::has_unapplied_conf_changes"],
             "bound": "logs of at most 3 entries: every assignment of entry types, every lo <= hi <= 3, every page split of the scan",
             "claim": "has_unapplied_conf_changes(lo, hi) == (applied < committed && some entry in [lo, hi) is a membership change)",
             "obligation": "C09.kext.has_unapplied_conf_changes.def"}],
}


def extract(repo, template, out_path):
    lines = open(os.path.join(ROOT, "spec", "kani", template)).read().split("\n")
    out, i, fns = [], 0, []
    while i < len(lines):
        ln = lines[i]
        m = re.match(r"\s*//@K fn (\S+) (\S+)\s*$", ln)
        if not m:
            out.append(ln)
            i += 1
            continue
        rel, qual = m.group(1), m.group(2)
        reps = []
        i += 1
        while not re.match(r"\s*//@K end", lines[i]):
            m2 = re.match(r"\s*//@K\s+replace\s+(.*)$", lines[i])
            if m2:
                pat, rest = _parse_quoted(m2.group(1))
                rest = rest.strip()
                assert rest.startswith("=>")
                rep, _ = _parse_quoted(rest[2:].strip())
                reps.append((pat, rep))
            i += 1
        i += 1
        src = open(os.path.join(repo, rel)).read()
        ty, name = qual.split("::") if "::" in qual else (None, qual)
        it = rustlex.find_item(src, "fn", name, impl_of=ty, trait_of="" if ty else None)
        if it is None:
            it = rustlex.find_item(src, "fn", name, impl_of=ty)
        if it is None or it.body_open is None:
            raise AnchorLost("fn %s not found in %s" % (qual, rel))
        text = src[it.hdr_start:it.body_close + 1]
        for pat, rep in reps:
            if pat not in text:
                raise AnchorLost("fn %s: %r not found" % (qual, pat))
            text = text.replace(pat, rep)
        text = Rewriter("S").rewrite(text)
        text = re.sub(r"\bpub\(crate\) ", "pub ", text)
        out.append("// ---- extracted from %s (line %d)" % (rel, src.count("\n", 0, it.hdr_start) + 1))
        out.append(text)
        fns.append({"fn": qual, "source": rel, "line": src.count("\n", 0, it.hdr_start) + 1})
    os.makedirs(os.path.dirname(out_path), exist_ok=True)
    open(out_path, "w").write("\n".join(out))
    return fns


def run(P, repo, build_dir, timeout=600):
    """-> list of result dicts: status in ok | fail | undecided"""
    res = []
    for h in HARNESSES.get(P, []):
        r = dict(h)
        t0 = time.time()
        path = os.path.join(build_dir, "kani", h["template"].replace(".krs", ".rs"))
        try:
            r["extracted"] = extract(repo, h["template"], path)
        except AnchorLost as e:
            r.update(status="undecided", reason="extractor anchor lost: %s" % e)
            res.append(r)
            continue
        cmd = ["kani", os.path.basename(path), "--harness", h["harness"]]
        try:
            p = subprocess.run(cmd, cwd=os.path.dirname(path), stdout=subprocess.PIPE, stderr=subprocess.STDOUT, timeout=timeout,
                               env=dict(os.environ, CARGO_NET_OFFLINE="true"))
            out = p.stdout.decode(errors="replace")
        except subprocess.TimeoutExpired:
            r.update(status="undecided", reason="kani timed out after %ds" % timeout)
            res.append(r)
            continue
        r["wall_s"] = round(time.time() - t0, 1)
        r["cmd"] = "cd %s && %s" % (os.path.dirname(path), " ".join(cmd))
        m = re.search(r"\*\* (\d+) of (\d+) failed", out)
        covers = re.findall(r"\*\* (\d+) of (\d+) cover properties satisfied", out)
        failed = re.findall(r"Failed Checks: (.*)", out)
        if "VERIFICATION:- SUCCESSFUL" in out:
            r["status"] = "ok"
            m2 = re.search(r"\*\* 0 of (\d+) failed", out)
            r["checks"] = int(m2.group(1)) if m2 else None
            if covers and covers[0][0] != covers[0][1]:
                r.update(status="undecided", reason="vacuity guard: only %s of %s cover properties reachable" % covers[0])
        elif "VERIFICATION:- FAILED" in out:
            # an unwinding assertion failing means the stated bound was not enough: undecided, not a violation
            if any("unwinding assertion" in f for f in failed) and not any(h["obligation"] in f for f in failed):
                r.update(status="undecided", reason="unwinding bound exceeded: " + "; ".join(failed)[:300])
            elif any(h["obligation"] in f for f in failed):
                r.update(status="fail", failed=failed, output=out[-3000:])
            else:
                r.update(status="undecided", reason="kani reported other failed checks: " + "; ".join(failed)[:300])
        else:
            r.update(status="undecided", reason="kani did not finish: " + out[-400:])
        res.append(r)
    return res


def playback(r, timeout=600):
    """Concrete counterexample of a failed harness (Kani concrete playback), as text; None if Kani gives none."""
    try:
        d, cmd = r["cmd"].split(" && ")
        p = subprocess.run(cmd.split() + ["-Z", "concrete-playback", "--concrete-playback=print"], cwd=d[3:], stdout=subprocess.PIPE,
                           stderr=subprocess.STDOUT, timeout=timeout, env=dict(os.environ, CARGO_NET_OFFLINE="true"))
        out = p.stdout.decode(errors="replace")
        for blk in re.findall(r"```\n(.*?)```", out, re.S):
            if r["obligation"] in blk:
                return {"monitor": "kani concrete playback of " + r["harness"], "input": blk, "observed": r["claim"] + " fails", "cmd": r["cmd"]}
    except Exception:
        pass
    return None


if __name__ == "__main__":
    P = sys.argv[1]
    repo = os.environ.get("VERIF_REPO", "/repo")
    for r in run(P, repo, os.path.join(ROOT, "build", P)):
        r.pop("output", None)
        print(json.dumps(r, indent=1))
