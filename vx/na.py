HOOK_COMMITS = []
NOT_YET = "not claimed yet: the contracts for the functions this property depends on are not built in this revision of /verif (see DESIGN.md section 11 for the build order)"
NOT_APPLICABLE = {
    "C01": "State-machine safety relates the commit reports of DIFFERENT nodes over all schedules and crash points; no contract on one function or one node-local structure expresses it, and the lifting invariant spans every handler, the network and the durable images (per-node 'committed prefix never replaced' is decided under C05/C14, the commit rule under C04).",
    "C02": "Election safety is a relation between two nodes' roles over all schedules and membership changes; its per-call necessary conditions (one vote per term: C06; exact tallies: C11) do not decide it and no contract-based lifting is tractable here.",
    "C10": "Liveness under fairness over all fault prefixes; contracts give partial correctness and termination of single calls only (per-call 'unsticking' facts are proved under C13/C15 but do not decide C10).",
}
for k in ["C03","C04","C05","C06","C07","C08","C09","C11","C12","C13","C14","C15","C16","C17","C18","C19","C20"]:
    NOT_APPLICABLE.setdefault(k, NOT_YET)
