"""Regenerates spec/assumed.lock.json: the fingerprint of the source text of every function whose contract is ASSUMED
(`ext` in a template).  Run after a deliberate change of /repo (a `fix:` commit) once the assumed contracts have been
re-read against the new text.  bin/check compares the current fingerprints with this file: a mismatch means the assumption
was made about other code, so the properties that rely on it are UNDECIDED (exit 2, replay monitors as fallback)."""
import json
import os
import sys

sys.path.insert(0, os.path.dirname(os.path.abspath(__file__)))
import assemble
import props

ROOT = os.path.dirname(os.path.dirname(os.path.abspath(__file__)))


def fingerprints(repo):
    out = {}
    seen = set()
    for P, cfg in props.PROPS.items():
        for mode in cfg.get("modes", ["P"]):
            mods = cfg["modules"][mode] if isinstance(cfg["modules"], dict) else cfg["modules"]
            key = (tuple(mods), mode)
            if key in seen:
                continue
            seen.add(key)
            g = assemble.assemble(repo, mods, body_modules=[], fatal_mode=mode, twin=False, cone_modules=[], prop=P)
            for fr in g.fn_records:
                if fr.get("assumed"):
                    out[fr["name"]] = {"fingerprint": fr["fingerprint"], "source": fr["source"], "tags": fr["tags"]}
    return out


if __name__ == "__main__":
    repo = os.environ.get("VERIF_REPO", "/repo")
    fp = fingerprints(repo)
    json.dump(fp, open(os.path.join(ROOT, "spec", "assumed.lock.json"), "w"), indent=1, sort_keys=True)
    print("assumed.lock.json: %d assumed functions" % len(fp))
