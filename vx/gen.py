"""vx gen: assemble the file handed to Verus.

A *template* (spec/<module>.vrs) is Verus text (prelude stubs, spec functions,
lemmas, impl-block skeletons) with `//@` directives.  Each directive is
replaced by an item copied from /repo's current source, token for token apart
from the fixed rewrite list (R1..R14 in DESIGN.md), with the contract clauses
of the directive spliced between signature and body.

The generator records, for every emitted clause and function, the generated
line range, so that a Verus diagnostic can be mapped back to a clause id.
"""
import os
import re
import json
import rustlex
from rustlex import tokenize, match_close, match_open, match_angle, Tok


class AnchorLost(Exception):
    """The template names something that the current source no longer has."""


LOG_MACROS = {"trace", "debug", "info", "warn", "error", "crit"}
ASSERT1 = {"debug_assert", "assert"}
ASSERT2 = {"debug_assert_eq": "==", "assert_eq": "==", "debug_assert_ne": "!=", "assert_ne": "!="}
CLAUSE_KW = ("sigreplace", "tags", "requires", "ensures", "decreases", "loop", "hint", "assert", "replace", "opt",
             "returns", "opens_invariants", "no_unwind", "recommends", "attr", "cut", "note")


# --------------------------------------------------------------------------- helpers

def _sig_idx(toks):
    return [k for k, t in enumerate(toks) if t.kind not in ("ws", "comment")]


def _text(toks):
    return "".join(t.text for t in toks)


def split_top_commas(toks):
    """Split a token list at top-level commas."""
    parts, cur, k = [], [], 0
    while k < len(toks):
        t = toks[k]
        if t.kind == "punct" and t.text in rustlex.OPEN:
            e = match_close(toks, k)
            cur.extend(toks[k:e + 1])
            k = e + 1
            continue
        if t.kind == "punct" and t.text == ",":
            parts.append(cur)
            cur = []
        else:
            cur.append(t)
        k += 1
    if any(t.kind not in ("ws", "comment") for t in cur):
        parts.append(cur)
    return parts


def split_fields(toks):
    """Split struct-body tokens at top-level commas, also respecting generic angle brackets."""
    parts, cur, k, depth = [], [], 0, 0
    while k < len(toks):
        t = toks[k]
        if t.kind == "punct" and t.text in rustlex.OPEN:
            e = match_close(toks, k)
            cur.extend(toks[k:e + 1])
            k = e + 1
            continue
        if t.kind == "punct" and t.text == "<":
            depth += 1
        elif t.kind == "punct" and t.text == ">":
            depth -= 1
        if t.kind == "punct" and t.text == "," and depth == 0:
            parts.append(cur)
            cur = []
        else:
            cur.append(t)
        k += 1
    if any(t.kind not in ("ws", "comment") for t in cur):
        parts.append(cur)
    return parts


def find_token_seq(toks, pat_toks, start=0):
    """All positions (first, last token index) where the significant tokens of
    pat_toks occur consecutively in toks (ignoring whitespace/comments)."""
    pat = [t.text for t in pat_toks if t.kind not in ("ws", "comment")]
    sidx = [k for k in _sig_idx(toks) if k >= start]
    texts = [toks[k].text for k in sidx]
    out = []
    if not pat:
        return out
    for a in range(0, len(texts) - len(pat) + 1):
        if texts[a:a + len(pat)] == pat:
            out.append((sidx[a], sidx[a + len(pat) - 1]))
    return out


def _prev_sig(toks, k):
    k -= 1
    while k >= 0 and toks[k].kind in ("ws", "comment"):
        k -= 1
    return k


def _next_sig(toks, k):
    k += 1
    while k < len(toks) and toks[k].kind in ("ws", "comment"):
        k += 1
    return k


def receiver_start(toks, dot):
    """toks[dot] is the '.' of a method call; return index of the first token of
    the receiver postfix chain."""
    k = _prev_sig(toks, dot)
    while True:
        t = toks[k]
        if t.kind == "punct" and t.text in (")", "]"):
            k = match_open(toks, k)
            p = _prev_sig(toks, k)
            if p >= 0 and (toks[p].kind == "ident" and toks[p].text not in ("if", "match", "while", "in", "return", "let", "else")
                           or toks[p].kind == "punct" and toks[p].text in (")", "]", "?")):
                k = p
                continue
            # turbofish `::<T>(`
            if p >= 0 and toks[p].kind == "punct" and toks[p].text == ">":
                raise AnchorLost("receiver with turbofish not supported")
        elif t.kind == "punct" and t.text == "?":
            k = _prev_sig(toks, k)
            continue
        elif t.kind in ("ident", "num", "str"):
            pass
        else:
            raise AnchorLost("cannot find receiver expression before offset %d" % toks[dot].start)
        p = _prev_sig(toks, k)
        if p >= 0 and toks[p].kind == "punct" and toks[p].text in (".", "::"):
            k = _prev_sig(toks, p)
            continue
        return k


# --------------------------------------------------------------------------- body rewrites

class Rewriter:
    def __init__(self, fatal_mode="P"):
        self.fatal_mode = fatal_mode
        self.counts = {}

    def bump(self, r):
        self.counts[r] = self.counts.get(r, 0) + 1

    def rewrite(self, text):
        """Apply R1-R7, R11 to a body text; returns new text."""
        # iterate until no macro is left to rewrite (nested macros are handled innermost-last)
        for _ in range(200):
            toks = tokenize(text)
            new = self._one_pass(toks, text)
            if new is None:
                return text
            text = new
        raise AnchorLost("rewrite did not converge")

    def _one_pass(self, toks, text):
        sidx = _sig_idx(toks)
        for n, k in enumerate(sidx):
            t = toks[k]
            if t.kind == "punct" and t.text == "#" and n + 1 < len(sidx) and toks[sidx[n + 1]].text == "[":
                # attribute inside a body
                e = match_close(toks, sidx[n + 1])
                attr = text[t.start:toks[e].end]
                if "failpoints" in attr:
                    # R6: drop attribute and the following macro statement
                    a = _next_sig(toks, e)
                    b = _next_sig(toks, a)
                    if toks[a].text == "fail_point" and toks[b].text == "!":
                        c = _next_sig(toks, b)
                        d = match_close(toks, c)
                        s = _next_sig(toks, d)
                        end = toks[s].end if toks[s].text == ";" else toks[d].end
                        self.bump("R6")
                        return text[:t.start] + text[end:]
                if re.match(r"#\[(inline|allow|must_use|doc|deprecated|rustfmt)", attr):
                    self.bump("R7")
                    return text[:t.start] + text[toks[e].end:]
                continue
            if t.kind in ("str", "string") and n + 4 < len(sidx) and toks[sidx[n + 1]].text == "." and toks[sidx[n + 2]].text == "to_owned" \
                    and toks[sidx[n + 3]].text == "(" and toks[sidx[n + 4]].text == ")":
                # R17: "literal".to_owned() as an error message
                self.bump("R17")
                return text[:t.start] + "verif_opaque_msg()" + text[toks[sidx[n + 4]].end:]
            if t.kind != "ident" or n + 2 >= len(sidx):
                continue
            b, o = toks[sidx[n + 1]], toks[sidx[n + 2]]
            if not (b.kind == "punct" and b.text == "!" and o.kind == "punct" and o.text in rustlex.OPEN):
                # method-call rewrites
                if t.text in ("is_some_and", "is_ok_and", "map_or") and n >= 1 and toks[sidx[n - 1]].text == "." \
                        and toks[sidx[n + 1]].text == "(":
                    return self._combinator(toks, text, sidx, n)
                if t.text in ("min", "max") and n >= 2 and toks[sidx[n - 1]].text == "::" and toks[sidx[n - 2]].text == "cmp" \
                        and toks[sidx[n + 1]].text == "(":
                    # R11: [std::]cmp::min(a, b) -> vmin(a, b)
                    first = sidx[n - 2]
                    if n >= 4 and toks[sidx[n - 3]].text == "::" and toks[sidx[n - 4]].text in ("std", "core"):
                        first = sidx[n - 4]
                    self.bump("R11")
                    return text[:toks[first].start] + "v" + t.text + text[t.end:]
                continue
            name = t.text
            close = match_close(toks, sidx[n + 2])
            inner = toks[sidx[n + 2] + 1:close]
            start, end = t.start, toks[close].end
            if name in LOG_MACROS:
                self.bump("R1")
                return text[:start] + "()" + text[end:]
            if name == "format":
                # R17: the text of an error message is not modelled (error payloads are opaque)
                self.bump("R17")
                return text[:start] + "verif_opaque_msg()" + text[end:]
            if name == "fatal":
                self.bump("R2")
                fn = "verif_fatal()" if self.fatal_mode == "P" else "verif_abort()"
                return text[:start] + fn + text[end:]
            if name in ASSERT1:
                parts = split_top_commas(inner)
                if name == "assert" and len(parts) == 1 and self.fatal_mode != "S":
                    continue  # already in final form
                self.bump("R4")
                if self.fatal_mode == "S":
                    return text[:start] + "if !(" + _text(parts[0]).strip() + ") { verif_abort() }" + text[end:]
                return text[:start] + "assert!(" + _text(parts[0]).strip() + ")" + text[end:]
            if name in ASSERT2:
                parts = split_top_commas(inner)
                self.bump("R4")
                cond = "(" + _text(parts[0]).strip() + ") " + ASSERT2[name] + " (" + _text(parts[1]).strip() + ")"
                if self.fatal_mode == "S":
                    return text[:start] + "if !(" + cond + ") { verif_abort() }" + text[end:]
                return text[:start] + "assert!(" + cond + ")" + text[end:]
            if name == "panic":
                if not inner and False:
                    continue
                self.bump("R3")
                return text[:start] + ("verif_abort()" if self.fatal_mode == "S" else "verif_panic()") + text[end:]
            if name in ("unreachable", "unimplemented", "todo"):
                self.bump("R3")
                return text[:start] + ("verif_abort()" if self.fatal_mode == "S" else "verif_panic()") + text[end:]
        return None

    def _combinator(self, toks, text, sidx, n):
        name = toks[sidx[n]].text
        dot = sidx[n - 1]
        rs = receiver_start(toks, dot)
        recv = text[toks[rs].start:toks[dot].start].strip()
        op = sidx[n + 1]
        cl = match_close(toks, op)
        args = split_top_commas(toks[op + 1:cl])
        if name == "map_or":
            if len(args) != 2:
                raise AnchorLost("map_or with %d args" % len(args))
            dflt, clo = _text(args[0]).strip(), args[1]
        else:
            if len(args) != 1:
                raise AnchorLost(name + " with %d args" % len(args))
            dflt, clo = "false", args[0]
        cs = [t for t in clo if t.kind not in ("ws", "comment")]
        if not cs or cs[0].text != "|":
            raise AnchorLost(name + " argument is not a closure literal")
        # closure params up to the second `|`
        bars = [i for i, t in enumerate(clo) if t.kind == "punct" and t.text == "|"]
        if len(bars) < 2:
            raise AnchorLost("closure header")
        pat = _text(clo[bars[0] + 1:bars[1]]).strip()
        body = _text(clo[bars[1] + 1:]).strip()
        if name == "is_ok_and":
            m = "(match %s { Ok(%s) => %s, Err(_) => %s })" % (recv, pat, body, dflt)
        else:
            m = "(match %s { Some(%s) => %s, None => %s })" % (recv, pat, body, dflt)
        self.bump("R5")
        return text[:toks[rs].start] + m + text[toks[cl].end:]


# --------------------------------------------------------------------------- template parsing

class FnDirective:
    def __init__(self, qual, opts, lineno, template):
        self.qual = qual          # e.g. "Inflights::add" or "majority"
        self.opts = opts          # dict
        self.clauses = []         # list of (kind, id, text)  kind in requires/ensures/decreases/...
        self.loops = {}           # ordinal -> list of (kind, id, text)
        self.hints = []           # (where, anchor, nth, code)
        self.replaces = []        # (pattern, nth, replacement, label)
        self.sigreplaces = []
        self.tags = []
        self.notes = []
        self.lineno = lineno
        self.template = template


_ID = re.compile(r"^\[([A-Za-z0-9_.\-|]+)\]\s*")


def _parse_quoted(s):
    """Parse a leading "..." (with \\" and \\n escapes); return (string, rest)."""
    s = s.lstrip()
    if not s.startswith('"'):
        raise ValueError("expected quoted string: " + s[:40])
    out, i = [], 1
    while i < len(s):
        c = s[i]
        if c == "\\" and i + 1 < len(s):
            nx = s[i + 1]
            out.append({"n": "\n", '"': '"', "\\": "\\"}.get(nx, "\\" + nx))
            i += 2
            continue
        if c == '"':
            return "".join(out), s[i + 1:]
        out.append(c)
        i += 1
    raise ValueError("unterminated quoted string")


def parse_fn_block(lines, qual, opts, lineno, template):
    d = FnDirective(qual, opts, lineno, template)
    cur = None  # (kind, rest-text list)
    entries = []
    for ln in lines:
        body = ln
        stripped = body.strip()
        if not stripped:
            continue
        word = stripped.split(None, 1)[0]
        if word in CLAUSE_KW and (body.startswith("  ") and not body.startswith("      ")):
            cur = [word, [stripped[len(word):].strip()]]
            entries.append(cur)
        else:
            if cur is None:
                raise ValueError("%s:%d: continuation without clause: %s" % (template, lineno, ln))
            cur[1].append(body.rstrip())
    for word, parts in entries:
        text = "\n".join(parts).strip()
        if word == "tags":
            d.tags = text.split()
        elif word == "note":
            d.notes.append(text)
        elif word in ("requires", "ensures", "decreases", "returns", "opens_invariants", "no_unwind", "recommends"):
            m = _ID.match(text)
            cid = None
            if m:
                cid, text = m.group(1), text[m.end():]
            mode = None
            mm = re.match(r"\{([PS])\}\s*", text)
            if mm:
                mode, text = mm.group(1), text[mm.end():]
            d.clauses.append((word, cid, text, mode))
        elif word == "loop":
            m = re.match(r"(\d+)\s+(invariant_except_break|invariant|ensures|decreases|body_start|body_end)\s*(.*)$", text, re.S)
            if not m:
                raise ValueError("%s:%d: bad loop clause: %s" % (template, lineno, text))
            n, kind, rest = int(m.group(1)), m.group(2), m.group(3)
            mm = _ID.match(rest)
            cid = None
            if mm:
                cid, rest = mm.group(1), rest[mm.end():]
            d.loops.setdefault(n, []).append((kind, cid, rest))
        elif word == "assert":
            # a NAMED intermediate obligation: `assert [ID|Cyy] before|after|after_block "anchor" [#n] :: spec expression`
            mi = re.match(r"\[([^\]]+)\]\s*(before|after_block|after)\s*", text)
            if not mi:
                raise ValueError("%s:%d: bad assert: %s" % (template, lineno, text))
            anchor, rest = _parse_quoted(text[mi.end():])
            rest = rest.lstrip()
            nth = None
            m2 = re.match(r"#(\d+)\s*", rest)
            if m2:
                nth = int(m2.group(1))
                rest = rest[m2.end():]
            if not rest.startswith("::"):
                raise ValueError("%s:%d: assert needs `::` before the expression" % (template, lineno))
            d.hints.append((mi.group(2), anchor, nth, ("ASSERT", mi.group(1), rest[2:].strip())))
        elif word == "hint":
            m = re.match(r"(before|after_block|after)\s*(#\d+)?\s*", text)
            if not m:
                raise ValueError("%s:%d: bad hint: %s" % (template, lineno, text))
            where = m.group(1)
            nth = int(m.group(2)[1:]) if m.group(2) else None
            anchor, rest = _parse_quoted(text[m.end():])
            rest = rest.lstrip()
            m2 = re.match(r"#(\d+)\s*", rest)
            if m2:
                nth = int(m2.group(1))
                rest = rest[m2.end():]
            if not rest.startswith("::"):
                raise ValueError("%s:%d: hint needs `::` before code" % (template, lineno))
            d.hints.append((where, anchor, nth, rest[2:].strip()))
        elif word in ("replace", "cut", "sigreplace"):
            m = re.match(r"(#\d+)?\s*", text)
            nth = int(m.group(1)[1:]) if m.group(1) else None
            pat, rest = _parse_quoted(text[m.end():])
            rest = rest.lstrip()
            if not rest.startswith("=>"):
                raise ValueError("%s:%d: replace needs `=>`" % (template, lineno))
            rest = rest[2:].lstrip()
            if rest.startswith('"'):
                rep, rest = _parse_quoted(rest)
            else:
                rep, rest = rest, ""
                # unquoted replacement: up to optional trailing `:: label`
                if " :: " in rep:
                    rep, rest = rep.rsplit(" :: ", 1)
                    rest = ":: " + rest
            label = rest.strip().lstrip(":").strip()
            if word == "sigreplace":
                d.sigreplaces.append((pat, nth, rep, label, word))
            else:
                d.replaces.append((pat, nth, rep, label, word))
        elif word == "opt":
            for kv in text.split():
                k, _, v = kv.partition("=")
                d.opts[k] = v or True
        elif word == "attr":
            d.opts.setdefault("attrs", []).append(text)
    return d


# --------------------------------------------------------------------------- generator

class Gen:
    def __init__(self, repo, body_modules=None, fatal_mode="P", twin=False, only_fns=None, cone_modules=None, prop=None, triv=False):
        self.triv = triv          # audit mode: every body is replaced by a havoc of its &mut parameters and result
        self.repo = repo
        self.body_modules = body_modules   # None = all
        self.fatal_mode = fatal_mode
        self.twin = twin
        self.out = []            # lines
        self.map = []            # records
        self.src_cache = {}
        self.rewrites = {}
        self.abstractions = []   # R9/R10 replace records
        self.trusted = []        # external_body / assume_specification found in template text
        self.fn_records = []
        self.cur_module = None
        self.cur_source = None
        self.only_fns = only_fns
        self.cone_modules = cone_modules or []
        self.prop = prop

    # ---- source access
    def source(self, rel):
        if rel not in self.src_cache:
            p = os.path.join(self.repo, rel)
            if not os.path.exists(p):
                raise AnchorLost("source file missing: " + rel)
            s = open(p).read()
            self.src_cache[rel] = (s, tokenize(s))
        return self.src_cache[rel]

    def emit(self, text):
        """Append text (may be multi-line); return (first_line, last_line) 1-based."""
        lines = text.split("\n")
        first = len(self.out) + 1
        self.out.extend(lines)
        return first, len(self.out)

    # ---- template processing
    def add_template(self, path, module):
        self.cur_module = module
        self.cur_sub = None
        tl = open(path).read().split("\n")
        i = 0
        while i < len(tl):
            ln = tl[i]
            s = ln.strip()
            if s.startswith("//@"):
                d = s[3:].strip()
                word = d.split(None, 1)[0] if d else ""
                if word == "source":
                    self.cur_source = d.split()[1]
                elif word in ("struct", "enum"):
                    self.emit_type(word, d, path, i + 1)
                elif word == "const":
                    self.emit_const(d, path, i + 1)
                elif word == "submodule":
                    self.cur_sub = d.split()[1] if len(d.split()) > 1 else None
                elif word == "getters":
                    self.emit_getters(d)
                elif word == "enum-default":
                    self.emit_enum_default(d)
                elif word == "expect-variants":
                    self.expect_variants(d)
                elif word == "expect-fields":
                    self.expect_fields(d)
                elif word == "fn":
                    block = []
                    j = i + 1
                    while j < len(tl) and tl[j].strip() != "//@ end":
                        x = tl[j].strip()
                        if not x.startswith("//@"):
                            raise ValueError("%s:%d: fn block not closed by //@ end" % (path, i + 1))
                        # keep indentation after the marker
                        raw = tl[j][tl[j].index("//@") + 3:]
                        block.append(raw)
                        j += 1
                    if j >= len(tl):
                        raise ValueError("%s:%d: fn block not closed" % (path, i + 1))
                    parts = d.split()
                    qual = parts[1]
                    opts = {}
                    for kv in parts[2:]:
                        k, _, v = kv.partition("=")
                        opts[k] = v or True
                    fd = parse_fn_block(block, qual, opts, i + 1, path)
                    self.emit_fn(fd)
                    i = j
                elif word == "#":
                    pass
                else:
                    raise ValueError("%s:%d: unknown directive %s" % (path, i + 1, d))
            else:
                a, _ = self.emit(ln)
                if "external_body" in ln or "assume_specification" in ln or "assume(" in ln or "admit(" in ln \
                        or "#[verifier::external" in ln or "axiom fn" in ln or "#[verifier::exec_allows_no_decreases" in ln:
                    if not s.startswith("//"):
                        txt = s
                        j2 = i + 1
                        while txt.startswith("#[") and j2 < len(tl) and len(txt) < 300:
                            txt = tl[j2].strip()
                            j2 += 1
                            if not txt.startswith("#["):
                                txt = "external_body " + txt
                                break
                        self.trusted.append({"template": os.path.basename(path), "line": i + 1, "gen_line": a, "text": txt})
            i += 1

    def emit_type(self, kind, d, path, lineno):
        parts = d.split(None, 2)
        name = parts[1]
        extra = parts[2] if len(parts) > 2 else ""
        src, toks = self.source(self.cur_source)
        it = rustlex.find_item(src, kind, name, toks=toks)
        if it is None:
            raise AnchorLost("%s %s not found in %s" % (kind, name, self.cur_source))
        text = src[it.hdr_start:it.end]
        # drop attributes / doc comments inside the definition (field attrs such as #[get = ..])
        text = strip_inner_attrs(text)
        text = re.sub(r"\bpub\s*\(\s*(crate|super)\s*\)", "pub", text)  # R7: visibility widened, no semantics
        if kind == "struct":
            text = widen_fields(text)
        if not re.match(r"\s*pub\b", text):
            text = "pub " + text
        if extra:
            self.emit(extra)
        a, b = self.emit(text)
        self.map.append({"kind": "type", "name": name, "lines": [a, b], "source": self.cur_source,
                         "src_line": src.count("\n", 0, it.hdr_start) + 1})

    def _members(self, kind, name):
        src, toks = self.source(self.cur_source)
        it = rustlex.find_item(src, kind, name, toks=toks)
        if it is None or it.body_open is None:
            raise AnchorLost("%s %s not found in %s" % (kind, name, self.cur_source))
        inner = tokenize(src[it.body_open + 1:it.body_close])
        names = []
        for part in (split_fields(inner) if kind == 'struct' else split_top_commas(inner)):
            sig_ = [t for t in part if t.kind not in ("ws", "comment")]
            k = 0
            while k < len(sig_) and sig_[k].text == "#":
                # skip attribute
                depth = 0
                k += 1
                while k < len(sig_):
                    if sig_[k].text == "[":
                        depth += 1
                    elif sig_[k].text == "]":
                        depth -= 1
                        if depth == 0:
                            k += 1
                            break
                    k += 1
            while k < len(sig_) and sig_[k].text in ("pub", "crate") or (k < len(sig_) and sig_[k].text == "("):
                if sig_[k].text == "(":
                    while sig_[k].text != ")":
                        k += 1
                k += 1
            if k < len(sig_) and sig_[k].kind == "ident":
                names.append(sig_[k].text)
        return names

    def emit_getters(self, d):
        """R14: getset `#[get = ...]` on a field -> the getter it generates: `fn field(&self) -> &T { &self.field }`."""
        name = d.split()[1]
        src, toks = self.source(self.cur_source)
        it = rustlex.find_item(src, "struct", name, toks=toks)
        if it is None or it.body_open is None:
            raise AnchorLost("struct %s not found in %s" % (name, self.cur_source))
        inner = tokenize(src[it.body_open + 1:it.body_close])
        out = []
        for part in split_fields(inner):
            sig_ = [t for t in part if t.kind not in ("ws", "comment")]
            text = "".join(t.text for t in part)
            if not re.search(r"#\[\s*get\b", text):
                continue
            # strip attributes
            k = 0
            while k < len(sig_) and sig_[k].text == "#":
                depth = 0
                k += 1
                while k < len(sig_):
                    if sig_[k].text == "[":
                        depth += 1
                    elif sig_[k].text == "]":
                        depth -= 1
                        if depth == 0:
                            k += 1
                            break
                    k += 1
            rest = sig_[k:]
            # visibility
            if rest and rest[0].text == "pub":
                rest = rest[1:]
                if rest and rest[0].text == "(":
                    while rest[0].text != ")":
                        rest = rest[1:]
                    rest = rest[1:]
            fname = rest[0].text
            # type = tokens after ':' in the original part
            colon = [i for i, t in enumerate(part) if t.kind == "punct" and t.text == ":" ]
            # first ':' that follows the field name token
            idx = None
            seen = False
            for i, t in enumerate(part):
                if t.kind == "ident" and t.text == fname and not seen:
                    seen = True
                elif seen and t.kind == "punct" and t.text == ":":
                    idx = i
                    break
            ty = "".join(t.text for t in part[idx + 1:]).strip()
            out.append("    pub fn %s(&self) -> (r: &%s) ensures *r == self.%s { &self.%s }" % (fname, ty, fname, fname))
        if not out:
            raise AnchorLost("struct %s has no #[get] fields" % name)
        self.emit("impl %s {\n%s\n}" % (name, "\n".join(out)))
        self.rewrites["R14"] = self.rewrites.get("R14", 0) + len(out)

    def emit_enum_default(self, d):
        """R14: `#[derive(Default)]` on an enum -> the impl rustc generates (the variant marked #[default])."""
        name = d.split()[1]
        src, toks = self.source(self.cur_source)
        it = rustlex.find_item(src, "enum", name, toks=toks)
        if it is None:
            raise AnchorLost("enum %s not found in %s" % (name, self.cur_source))
        body = src[it.body_open:it.body_close]
        m = re.search(r"#\[default\]\s*(?:///[^\n]*\s*)*([A-Za-z_][A-Za-z0-9_]*)", body)
        if not m:
            raise AnchorLost("enum %s has no #[default] variant" % name)
        v = m.group(1)
        self.emit("impl %s { pub fn default() -> (r: Self) ensures r == %s::%s { %s::%s } }" % (name, name, v, name, v))
        self.rewrites["R14"] = self.rewrites.get("R14", 0) + 1

    def expect_variants(self, d):
        parts = d.split()
        got = self._members("enum", parts[1])
        if got != parts[2:]:
            raise AnchorLost("enum %s in %s has variants %s, the hand-written stub expects %s" % (parts[1], self.cur_source, got, parts[2:]))

    def expect_fields(self, d):
        parts = d.split()
        got = self._members("struct", parts[1])
        if got != parts[2:]:
            raise AnchorLost("struct %s in %s has fields %s, the hand-written stub expects %s" % (parts[1], self.cur_source, got, parts[2:]))

    def emit_const(self, d, path, lineno):
        name = d.split()[1]
        src, toks = self.source(self.cur_source)
        it = rustlex.find_item(src, "const", name, toks=toks)
        if it is None:
            raise AnchorLost("const %s not found in %s" % (name, self.cur_source))
        self.emit(src[it.hdr_start:it.end])

    def emit_fn(self, fd):
        src, toks = self.source(fd.opts.get("source", self.cur_source))
        srcfile = fd.opts.get("source", self.cur_source)
        if "::" in fd.qual:
            ty, name = fd.qual.split("::")
        else:
            ty, name = None, fd.qual
        trait_of = fd.opts.get("trait")
        if trait_of is None and ty is not None:
            trait_of = ""  # inherent impl by default
            it = rustlex.find_item(src, "fn", name, impl_of=ty, trait_of="", toks=toks)
            if it is None:
                it = rustlex.find_item(src, "fn", name, impl_of=ty, toks=toks)
        else:
            it = rustlex.find_item(src, "fn", name, impl_of=ty, trait_of=trait_of, toks=toks)
        if it is None:
            raise AnchorLost("fn %s not found in %s" % (fd.qual, srcfile))
        if it.body_open is None:
            raise AnchorLost("fn %s has no body in %s" % (fd.qual, srcfile))
        src_line = src.count("\n", 0, it.hdr_start) + 1
        sig_text = src[it.hdr_start:it.body_open].rstrip()
        body_text = src[it.body_open:it.body_close + 1]
        emit_name = fd.opts.get("as", name)
        for (pat, nth, rep, label, word) in fd.sigreplaces:
            sig_text = self.apply_replace(sig_text, pat, nth, rep, fd, label, word)
        contract_only = ("ext" in fd.opts) or (self.body_modules is not None and self.cur_module not in self.body_modules)
        if contract_only and "ext" not in fd.opts and self.cur_module in self.cone_modules and self.prop in fd.tags:
            contract_only = False  # cone tagging: a callee whose contract carries this property is verified with its body here too
        if self.only_fns is not None and (self.cur_module + "::" + fd.qual) not in self.only_fns and not contract_only:
            contract_only = True
        if self.twin and not contract_only and "notwin" not in fd.opts and not getattr(fd, "_is_twin", False):
            # vacuity twin: keep the original as a contract (so callers are unaffected) and emit a renamed
            # copy with the body and one extra postcondition `false`, which must FAIL to verify.
            import copy
            orig = copy.deepcopy(fd)
            orig.opts["ext"] = True
            orig.opts["twin_orig"] = True
            self.emit_fn(orig)
            tw = copy.deepcopy(fd)
            tw._is_twin = True
            tw.opts["as"] = fd.opts.get("as", name) + "__twin"
            self.emit_fn(tw)
            return
        sig_text = rewrite_signature(sig_text, name, emit_name, fd.opts.get("ret", "r"), fd.opts)
        qual_name = self.cur_module + "::" + (self.cur_sub + "::" if getattr(self, "cur_sub", None) else "") + (fd.qual if "as" not in fd.opts else (ty + "::" if ty else "") + emit_name)
        rec = {"kind": "fn", "name": qual_name, "source": srcfile, "src_line": src_line, "tags": fd.tags,
               "contract_only": contract_only, "clauses": [], "notes": fd.notes,
               "src_fn": fd.qual, "module": self.cur_module}
        if "ext" in fd.opts and "twin_orig" not in fd.opts:
            # an ASSUMED contract is an assumption about THIS text: fingerprint of the function's tokens (comments and
            # white space ignored), compared by bin/check with spec/assumed.lock.json
            import hashlib
            ftoks = [t.text for t in tokenize(src[it.hdr_start:it.body_close + 1]) if t.kind not in ("ws", "comment")]
            rec["assumed"] = True
            rec["fingerprint"] = hashlib.sha256(" ".join(ftoks).encode()).hexdigest()[:16]
        for a in fd.opts.get("attrs", []):
            if getattr(fd, "_is_twin", False) and "rlimit" in a:
                continue  # the vacuity twin keeps the small default budget
            self.emit(a)
        if contract_only:
            self.emit("#[verifier::external_body]")
        a, _ = self.emit(sig_text)
        rec["sig_line"] = a
        order = ["requires", "recommends", "ensures", "returns", "opens_invariants", "no_unwind", "decreases"]
        fatal_mode = fd.opts.get("fatal", self.fatal_mode)
        fatal_mode = {"abort": "S", "unreachable": "P"}.get(fatal_mode, fatal_mode)
        clauses = [c[:3] for c in fd.clauses if c[3] is None or c[3] == fatal_mode]
        if getattr(fd, "_is_twin", False):
            clauses.append(("ensures", "TWIN", "false"))
            rec["twin_of"] = self.cur_module + "::" + (self.cur_sub + "::" if getattr(self, "cur_sub", None) else "") + fd.qual
        for kind in order:
            cs = [c for c in clauses if c[0] == kind]
            if not cs:
                continue
            if kind == "no_unwind":
                self.emit("    no_unwind")
                continue
            self.emit("    " + kind)
            for (_, cid, text) in cs:
                a, b = self.emit("        " + text.rstrip().rstrip(",") + ",")
                crec = {"kind": kind, "id": cid, "lines": [a, b], "text": " ".join(text.split())}
                rec["clauses"].append(crec)
        if contract_only:
            self.emit("{ unimplemented!() }")
            rec["lines"] = [rec["sig_line"], len(self.out)]
            self.fn_records.append(rec)
            return
        if self.triv:
            # havoc twin: a clause that still verifies does not constrain the function at all
            self.emit(havoc_body(sig_text))
            rec["lines"] = [rec["sig_line"], len(self.out)]
            rec["body_lines"] = [rec["sig_line"], len(self.out)]
            self.fn_records.append(rec)
            return
        # ----- body
        fatal_mode = fd.opts.get("fatal", self.fatal_mode)
        fatal_mode = {"abort": "S", "unreachable": "P"}.get(fatal_mode, fatal_mode)
        rw = Rewriter(fatal_mode)
        body = body_text
        # 1. exact-text replacements (R9/R10/R12/R13) on the source text, before generic rewrites
        for (pat, nth, rep, label, word) in fd.replaces:
            body = self.apply_replace(body, pat, nth, rep, fd, label, word)
        # 2. hints and loop clauses are spliced on the source tokens, with markers, before generic rewrites
        body = self.continue_to_else(body, fd)
        body = self.splice_loops(body, fd, rec)
        body = self.splice_hints(body, fd, rec)
        body = rw.rewrite(body)
        for k, v in rw.counts.items():
            self.rewrites[k] = self.rewrites.get(k, 0) + v
        # resolve loop clause markers to line numbers
        a, b = self.emit(body)
        rec["lines"] = [rec["sig_line"], b]
        rec["body_lines"] = [a, b]
        for ln in range(a, b + 1):
            m = re.search(r"/\*@C(\d+)\*/", self.out[ln - 1])
            if m:
                crec = rec["_loop_clauses"][int(m.group(1))]
                crec["lines"] = [ln, ln]
        for crec in rec.pop("_loop_clauses", []):
            rec["clauses"].append(crec)
        self.fn_records.append(rec)

    def apply_replace(self, body, pat, nth, rep, fd, label, word):
        toks = tokenize(body)
        hits = find_token_seq(toks, tokenize(pat))
        if not hits:
            raise AnchorLost("fn %s: text to abstract not found: %r" % (fd.qual, pat))
        if nth is None:
            if len(hits) != 1:
                raise AnchorLost("fn %s: text to abstract occurs %d times: %r" % (fd.qual, len(hits), pat))
            nth = 0
        if nth >= len(hits):
            raise AnchorLost("fn %s: occurrence #%d of %r not found" % (fd.qual, nth, pat))
        a, b = hits[nth]
        self.abstractions.append({"fn": self.cur_module + "::" + fd.qual, "source_text": pat, "becomes": rep, "why": label})
        return body[:toks[a].start] + rep + body[toks[b].end:]

    def splice_hints(self, body, fd, rec=None):
        for (where, anchor, nth, code) in fd.hints:
            if isinstance(code, tuple):
                _, cid, expr = code
                idx = len(rec["_loop_clauses"])
                rec["_loop_clauses"].append({"kind": "assert", "id": cid, "lines": None, "text": " ".join(expr.split())})
                code = "proof { /*@C%d*/ assert(%s); }" % (idx, expr)
            toks = tokenize(body)
            hits = find_token_seq(toks, tokenize(anchor))
            if not hits:
                raise AnchorLost("fn %s: hint anchor not found: %r" % (fd.qual, anchor))
            if nth is None:
                if len(hits) != 1:
                    raise AnchorLost("fn %s: hint anchor occurs %d times: %r" % (fd.qual, len(hits), anchor))
                nth = 0
            if nth >= len(hits):
                raise AnchorLost("fn %s: hint anchor occurrence #%d not found: %r" % (fd.qual, nth, anchor))
            a, b = hits[nth]
            if where == "after_block":
                # after the `}` closing the innermost block that contains the anchor
                depth, k = 0, b + 1
                endk = None
                while k < len(toks):
                    t = toks[k]
                    if t.kind == "punct" and t.text in rustlex.OPEN:
                        k = match_close(toks, k) + 1
                        continue
                    if t.kind == "punct" and t.text == "}":
                        endk = k
                        break
                    k += 1
                if endk is None:
                    raise AnchorLost("fn %s: no enclosing block for hint anchor %r" % (fd.qual, anchor))
                pos = body.find("\n", toks[endk].end)
                pos = len(body) if pos < 0 else pos
                body = body[:pos] + "\n" + code + body[pos:]
            elif where == "before":
                pos = body.rfind("\n", 0, toks[a].start) + 1
                body = body[:pos] + code + "\n" + body[pos:]
            else:
                pos = body.find("\n", toks[b].end)
                pos = len(body) if pos < 0 else pos
                body = body[:pos] + "\n" + code + body[pos:]
        return body

    def continue_to_else(self, body, fd):
        """R8b: inside the loops listed by `opt nocontinue=<ordinals>`, rewrite
        `if C { S; continue; } REST`  into  `if C { S; } else { REST }` (continue as the last statement of an
        else-less `if` at the top level of the loop body) -- the same control flow without `continue`."""
        spec = fd.opts.get("nocontinue")
        if not spec:
            return body
        for n in [int(x) for x in str(spec).split(",")]:
            for _ in range(50):
                toks = tokenize(body)
                loops = [k for k in _sig_idx(toks) if toks[k].kind == "ident" and toks[k].text in ("while", "for", "loop")
                         and not _is_for_in_type(toks, k)]
                if n >= len(loops):
                    raise AnchorLost("fn %s: loop %d not found for nocontinue" % (fd.qual, n))
                j = loops[n] + 1
                while j < len(toks) and not (toks[j].kind == "punct" and toks[j].text == "{"):
                    if toks[j].kind == "punct" and toks[j].text in ("(", "["):
                        j = match_close(toks, j)
                    j += 1
                close = match_close(toks, j)
                # scan top-level statements of the loop body (and of else-blocks created here) for `if ... { ...; continue; }`
                def scan(bopen, bclose, body):
                    k = bopen + 1
                    while k < bclose:
                        t = toks[k]
                        if t.kind == "punct" and t.text in rustlex.OPEN:
                            k = match_close(toks, k) + 1
                            continue
                        if t.kind == "ident" and t.text == "if":
                            b = k + 1
                            while not (toks[b].kind == "punct" and toks[b].text == "{"):
                                if toks[b].kind == "punct" and toks[b].text in ("(", "["):
                                    b = match_close(toks, b)
                                b += 1
                            e = match_close(toks, b)
                            nxt = _next_sig(toks, e)
                            has_else = nxt < bclose and toks[nxt].kind == "ident" and toks[nxt].text == "else"
                            inner = [x for x in range(b + 1, e) if toks[x].kind not in ("ws", "comment")]
                            if (not has_else and len(inner) >= 2 and toks[inner[-1]].text == ";" and toks[inner[-2]].text == "continue"):
                                return (body[:toks[inner[-2]].start] + body[toks[inner[-1]].end:toks[e].end] + " else {" +
                                        body[toks[e].end:toks[bclose].start] + "}\n" + body[toks[bclose].start:])
                            if has_else:
                                eb = _next_sig(toks, nxt)
                                if toks[eb].kind == "punct" and toks[eb].text == "{":
                                    ec = match_close(toks, eb)
                                    r = scan(eb, ec, body)
                                    if r is not None:
                                        return r
                                    k = ec + 1
                                    continue
                            k = e + 1
                            continue
                        k += 1
                    return None
                nb = scan(j, close, body)
                changed = nb is not None
                if changed:
                    body = nb
                    self.rewrites["R8"] = self.rewrites.get("R8", 0) + 1
                if not changed:
                    break
            # no `continue` may remain at the top level of that loop
        return body

    def splice_loops(self, body, fd, rec):
        rec["_loop_clauses"] = []
        if not fd.loops:
            return body
        toks = tokenize(body)
        loops = [k for k in _sig_idx(toks) if toks[k].kind == "ident" and toks[k].text in ("while", "for", "loop")
                 and not _is_for_in_type(toks, k)]
        inserts = []
        for n, clauses in fd.loops.items():
            if n >= len(loops):
                raise AnchorLost("fn %s: loop %d not found (body has %d loops)" % (fd.qual, n, len(loops)))
            k = loops[n]
            j = k + 1
            while j < len(toks):
                t = toks[j]
                if t.kind == "punct" and t.text in ("(", "["):
                    j = match_close(toks, j)
                elif t.kind == "punct" and t.text == "{":
                    break
                j += 1
            if j >= len(toks):
                raise AnchorLost("fn %s: loop %d has no body" % (fd.qual, n))
            text = "\n"
            for kind in ("invariant_except_break", "invariant", "ensures", "decreases"):
                cs = [c for c in clauses if c[0] == kind]
                if not cs:
                    continue
                text += "                " + kind + "\n"
                for (_, cid, ctext) in cs:
                    idx = len(rec["_loop_clauses"])
                    rec["_loop_clauses"].append({"kind": "loop_" + kind, "id": cid, "loop": n,
                                                 "text": " ".join(ctext.split()), "lines": None})
                    text += "                    /*@C%d*/ %s,\n" % (idx, " ".join(ctext.split()).rstrip(","))
            inserts.append((toks[j].start, text + "            "))
            close = match_close(toks, j)
            for (kind, cid, ctext) in clauses:
                code = ctext.strip()
                if code.startswith("::"):
                    code = code[2:].strip()
                if kind == "body_start":
                    inserts.append((toks[j].end, "\n" + code + "\n"))
                elif kind == "body_end":
                    inserts.append((toks[close].start, "\n" + code + "\n"))
        for pos, text in sorted(inserts, reverse=True):
            body = body[:pos] + text + body[pos:]
        return body

    def result(self):
        return "\n".join(self.out) + "\n"


def _is_for_in_type(toks, k):
    """`for` in `impl X for Y` or `for<'a>` — not a loop."""
    if toks[k].text != "for":
        return False
    n = _next_sig(toks, k)
    return n < len(toks) and toks[n].text == "<"


def strip_inner_attrs(text):
    toks = tokenize(text)
    out, k = [], 0
    while k < len(toks):
        t = toks[k]
        if t.kind == "comment" and t.text.startswith("//"):
            k += 1
            continue
        if t.kind == "punct" and t.text == "#":
            j = _next_sig(toks, k)
            if j < len(toks) and toks[j].text == "[":
                k = match_close(toks, j) + 1
                continue
        out.append(t.text)
        k += 1
    # collapse blank lines
    s = "".join(out)
    s = re.sub(r"\n\s*\n", "\n", s)
    return s


def widen_fields(text):
    """R7: make every named field of a struct `pub` (visibility has no runtime meaning; Verus needs it for specs)."""
    toks = tokenize(text)
    # find the struct body `{ ... }` at depth 0 (skip generics / where clauses)
    k = 0
    while k < len(toks) and not (toks[k].kind == "punct" and toks[k].text == "{"):
        if toks[k].kind == "punct" and toks[k].text in ("(", "["):
            k = match_close(toks, k)
        k += 1
    if k >= len(toks):
        return text
    close = match_close(toks, k)
    out = [t.text for t in toks[:k + 1]]
    expect_field = True
    j = k + 1
    while j < close:
        t = toks[j]
        if t.kind in ("ws", "comment"):
            out.append(t.text)
            j += 1
            continue
        if expect_field:
            if not (t.kind == "ident" and t.text == "pub"):
                out.append("pub ")
            expect_field = False
        if t.kind == "punct" and t.text in rustlex.OPEN:
            e = match_close(toks, j)
            out.extend(x.text for x in toks[j:e + 1])
            j = e + 1
            continue
        if t.kind == "punct" and t.text == "<":
            e = match_angle(toks, j)
            out.extend(x.text for x in toks[j:e + 1])
            j = e + 1
            continue
        if t.kind == "punct" and t.text == ",":
            expect_field = True
        out.append(t.text)
        j += 1
    out.extend(t.text for t in toks[close:])
    return "".join(out)


def havoc_body(sig):
    """Body that assigns an arbitrary value to every `&mut` parameter and returns an arbitrary result."""
    toks = tokenize(sig)
    sidx = _sig_idx(toks)
    p = None
    for n, k in enumerate(sidx):
        if toks[k].kind == "ident" and toks[k].text == "fn":
            p = sidx[n + 2]
            if toks[p].text == "<":
                p = _next_sig(toks, match_angle(toks, p))
            break
    pc = match_close(toks, p)
    # split parameters at depth-0 commas
    params, cur, j = [], [], p + 1
    while j < pc:
        t = toks[j]
        if t.kind == "punct" and t.text in rustlex.OPEN:
            k = match_close(toks, j); cur.extend(toks[j:k + 1]); j = k + 1; continue
        if t.kind == "punct" and t.text == "<":
            k = match_angle(toks, j); cur.extend(toks[j:k + 1]); j = k + 1; continue
        if t.kind == "punct" and t.text == ",":
            params.append(cur); cur = []
        else:
            cur.append(t)
        j += 1
    if cur:
        params.append(cur)
    stmts = []
    for pr in params:
        txt = [t.text for t in pr if t.kind not in ("ws", "comment")]
        if not txt:
            continue
        if txt[:2] == ["&", "mut"] and txt[2:3] == ["self"]:
            stmts.append("*self = crate::prelude::verif_any();")
        elif ":" in txt:
            c = txt.index(":")
            name = txt[c - 1]
            ty = txt[c + 1:]
            if ty[:1] == ["&"] and "mut" in ty[:3] and "[" not in ty[:4]:
                stmts.append("*%s = crate::prelude::verif_any();" % name)
    has_ret = "->" in [t.text for t in toks[pc:]]
    never = has_ret and "!" in [t.text for t in toks[pc:] if t.kind == "punct"]
    tail = "crate::prelude::verif_any()" if has_ret and not never else ""
    if never:
        tail = "crate::prelude::verif_abort()"
    return "{ " + " ".join(stmts) + " " + tail + " }"


def rewrite_signature(sig, name, emit_name, ret, opts):
    """Name the return value `-> T` => `-> (ret: T)`; optionally rename the fn."""
    toks = tokenize(sig)
    sidx = _sig_idx(toks)
    # find `fn name`
    fk = None
    for n, k in enumerate(sidx):
        if toks[k].kind == "ident" and toks[k].text == "fn" and toks[sidx[n + 1]].text == name:
            fk = n
            break
    if fk is None:
        raise AnchorLost("signature of %s" % name)
    nk = sidx[fk + 1]
    p = sidx[fk + 2]
    if toks[p].text == "<":
        p = _next_sig(toks, match_angle(toks, p))
    if toks[p].text != "(":
        raise AnchorLost("parameter list of %s" % name)
    pc = match_close(toks, p)
    a = _next_sig(toks, pc)
    pieces = []
    vis = opts.get("vis")
    head = sig[:toks[nk].start]
    if vis is not None:
        head = re.sub(r"^\s*pub(\s*\([^)]*\))?\s*", "", head)
        head = (vis + " " if vis != "priv" else "") + head
    else:
        head = re.sub(r"^\s*pub\s*\([^)]*\)", "pub", head)
    pieces.append(head)
    pieces.append(emit_name)
    if a < len(toks) and toks[a].text == "->":
        # return type extends to `where` at depth 0 or end
        j = a + 1
        end = len(toks)
        while j < len(toks):
            t = toks[j]
            if t.kind == "punct" and t.text in rustlex.OPEN:
                j = match_close(toks, j)
            elif t.kind == "punct" and t.text == "<":
                j = match_angle(toks, j)
            elif t.kind == "ident" and t.text == "where":
                end = j
                break
            j += 1
        rty = "".join(t.text for t in toks[a + 1:end]).strip()
        pieces.append(sig[toks[nk].end:toks[a].start])
        pieces.append("-> (%s: %s)" % (ret, rty))
        if end < len(toks):
            pieces.append(" " + "".join(t.text for t in toks[end:]))
    else:
        pieces.append(sig[toks[nk].end:])
    return "".join(pieces)
