#!/usr/bin/env python3
"""Regenerate /verif/MANIFEST.json from vx/props.py (claimed properties) and vx/na.py (not applicable)."""
import json, os, sys
ROOT = os.path.dirname(os.path.dirname(os.path.abspath(__file__)))
sys.path.insert(0, os.path.join(ROOT, "vx"))
import props, na
ids = [json.loads(l)["id"] for l in open(os.path.join(ROOT, "properties.jsonl"))]
checks = []
for pid in ids:
    if pid not in props.PROPS:
        continue
    c = props.PROPS[pid]
    text = "%s: " % c["claim"] + "Decided by contract (Verus, all inputs, no bound): " + "; ".join(c["decided"]) + "."
    if c.get("undecided"):
        text += " NOT decided by this check: " + "; ".join(c["undecided"]) + "."
    if c.get("bounded"):
        text += " Bounded stand-ins (never counted as proved): " + "; ".join(c["bounded"]) + "."
    checks.append({
        "property_id": pid,
        "quick_cmd": "bin/check %s --tier quick" % pid,
        "thorough_cmd": "bin/check %s --tier thorough" % pid,
        "evidence_file": "evidence/%s.json" % pid,
        "replay_cmd_template": "bin/check --replay {path}",
        "engine": "vx+verus",
        "level_claimed": {"category": "proof", "text": text, "design_ref": c.get("design_ref", "DESIGN.md section 5 / " + pid)},
        "level_note": "Trusted: Verus+z3; the vx extractor and its rewrite list R1-R18 (printed into every evidence file); prelude stubs of foreign types; "
                      + "; ".join(c.get("assumptions", [])),
        "technique": c.get("technique", "contract-based deductive verification (Verus) of the real function bodies, extracted mechanically from /repo on every run"),
    })
m = {
    "version": 1,
    "setup_cmd": "python3 vx/setup.py",
    "hooks": {
        "guard": "tikv_raft_rs_verif",
        "enable": "RUSTFLAGS=\"--cfg tikv_raft_rs_verif\" (only the replay monitors of the thorough tier use it; the Verus path reads private items from source and needs no hook)",
        "baseline_off_cmd": "cd /repo && cargo test --workspace --no-fail-fast --offline",
        "source_commits": na.HOOK_COMMITS,
        "add_only": True,
    },
    "engines": [
        {"name": "vx+verus", "path": "vx/", "serves_properties": [c["property_id"] for c in checks],
         "kind_free_text": "mechanical extraction of the real functions from /repo + contracts from spec/*.vrs, discharged by Verus (z3) function by function"},
    ],
    "checks": checks,
    "not_applicable": [{"property_id": k, "reason": v} for k, v in na.NOT_APPLICABLE.items() if k not in props.PROPS],
    "notes": "exit 0 = all obligations of the property discharged; exit 1 = VIOLATION line; exit 2 = undecided (anchor lost / verifier front-end / solver limit), never an alarm. See DESIGN.md.",
}
json.dump(m, open(os.path.join(ROOT, "MANIFEST.json"), "w"), indent=1)
print("MANIFEST.json:", len(checks), "checks,", len(m["not_applicable"]), "not applicable")
