"""Replay monitors: small-scope differential runs of the REAL compiled crate against the model of a property.

They are never counted as proof.  They serve three purposes:
  * witness finder: when a Verus obligation of property P fails, look for a concrete failing input on the real code
    (the replay file then carries that input and `check --replay` re-executes it);
  * fallback when the verifier cannot decide (extractor anchor lost, construct outside Verus): a concrete failing
    input found on the real code is a genuine violation, so the check may still report it (no witness => exit 2);
  * the bounded replay of the thorough tier.
"""
import json
import os
import re
import shutil
import subprocess
import time

ROOT = os.path.dirname(os.path.dirname(os.path.abspath(__file__)))
CRATE = os.path.join(ROOT, "replay")
TARGET = os.path.join(ROOT, "build", "replay-target")

_C14 = ("real RaftLog<MemStorage> vs a plain sequence model under random contract-abiding leader appends, follower maybe_append with "
        "conflicts, commits, stabilisations, persistence notices, apply, storage compaction and snapshot restore (<= 14 ops); "
        "first/last/term/slice/entries/conflict search/up-to-date/all_entries compared and applied <= committed <= last, persisted-vs-storage checked after every step")
MONITORS = {
    "C14": {"bin": "mon_c14", "quick": 20000, "thorough": 600000, "what": _C14},
    "C05": {"bin": "mon_c14", "quick": 20000, "thorough": 600000, "what": _C14},
    "C13": {"bin": "mon_c14", "quick": 20000, "thorough": 300000, "what": _C14 + " (only the log reads an append message is built from)"},
    "C18": {"bin": "mon_c18", "quick": 50000, "thorough": 3000000,
            "what": "real raft::Inflights vs the bounded-FIFO model under random sequences of add/free_to/free_first_one/reset/set_cap/maybe_free_buffer (cap 0..5, <= 14 ops)"},
    "C19": {"bin": "mon_c19", "quick": 20000, "thorough": 600000,
            "what": "real MemStorage vs the (snapshot point + contiguous entries) model under random contract-abiding append/compact/apply_snapshot/commit_to sequences; first/last/term/entries/snapshot compared after every step"},
    "C04": {"bin": "mon_c04", "quick": 50000, "thorough": 3000000,
            "what": "real single-voter RawNode<MemStorage> under random proposals, synchronous and asynchronous Ready handling and late / repeated / stale "
                    "persistence notices (<= 17 ops): persisted index, the leader's own matched index and the commit index never exceed the last entry of the Readys reported durable"},
    "C06": {"bin": "mon_c06", "quick": 50000, "thorough": 3000000,
            "what": "real RawNode<MemStorage> (lone voter + learner, or three voters) under random campaigns, ticks, proposals, higher-term vote requests / heartbeats, "
                    "vote responses to released requests (rejections carry the peer's commit index), appends and snapshots from the known leader (at, below, above the commit index, just beyond the log; requested or not), compaction of applied entries, synchronous and asynchronous Readys, late persistence notices, and CRASHES: the node restarts from a durable image that holds exactly the Readys reported persisted, plus possibly a prefix (snapshot / snapshot + entries) of the oldest unfinished write (<= 19 ops, plus a directed family: lone voter deposed, snapshot requested and restored, random timer / persistence / crash steps): after a restart the term is not below any released message and the vote matches what was told; every message is checked, at the "
                    "moment it may be sent, against the hard state of the Readys reported persisted (term not ahead, vote grant matches the durable vote)"},
    "C20": {"bin": "mon_c06", "args": ["--prop", "C20"], "quick": 50000, "thorough": 3000000,
            "what": "the RawNode driver of mon_c06 (campaigns, ticks, proposals, higher-term messages, appends and snapshots from the known leader, compaction, synchronous and asynchronous Readys, late notices, crashes and restarts from the durable image; lone voter + learner "
                    "or three voters; <= 19 ops) with only panics reported: no library call may panic under contract-abiding use"},
    "C12": {"bin": "mon_c12", "quick": 20000, "thorough": 1000000,
            "what": "real Changer::{simple, enter_joint, leave_joint} + ProgressTracker::apply_conf vs the set-based reference semantics under random change sequences (<= 8 changes, "
                    "lists of <= 4 single changes over ids 0..6, repeated ids included): result == model, invariant of C12, rejected => untouched, and the ConfState round trip through Raft::new"},
    # the quorum test behind the release of pending reads (ProgressTracker::has_quorum) over joint configurations
    "C08": {"bin": "mon_c11", "quick": 20000, "thorough": 600000,
            "what": "ProgressTracker::has_quorum (the test that releases pending reads) of the real crate vs the count-based definition of a joint quorum, "
                    "voter sets of 1..10 members, joint configurations, every subset of acknowledging members"},
    "C11": {"bin": "mon_c11", "quick": 20000, "thorough": 600000,
            "what": "ProgressTracker::maximal_committed_index / tally_votes of the real crate vs the count-based quorum definitions, "
                    "voter sets of 1..10 members, joint configurations, group commit"},
}


_CL = ("three real RawNode<MemStorage> nodes (all voters at the start), synchronous Ready handling, a network that delays / reorders / duplicates / drops messages and partitions nodes; "
       "random schedules (12..80 ops) of ticks, campaigns, proposals, read requests, deliveries and - in every other case - membership changes (remove / re-add / demote to learner, applied "
       "when committed; removed nodes keep running); pre_vote / check_quorum on or off: ")
CLUSTER = {
    "C08": {"bin": "mon_cluster", "args": ["--prop", "C08"], "quick": 15000, "thorough": 300000, "what": _CL + "every ReadState appears on the issuing node with index >= the highest commit index any node had reached at issue time"},
    "C05": {"bin": "mon_cluster", "args": ["--prop", "C05"], "quick": 4000, "thorough": 300000, "what": _CL + "log matching between every pair of nodes after every step"},
    "C03": {"bin": "mon_cluster", "args": ["--prop", "C03"], "quick": 4000, "thorough": 300000, "what": _CL + "leader completeness: committed prefixes are contained in the log of every leader of a later-or-equal term; one value per applied index"},
    "C20": {"bin": "mon_cluster", "args": ["--prop", "C20"], "quick": 15000, "thorough": 300000, "what": _CL + "no library call panics (read contexts are reused, also by different nodes)"},
    "C04": {"bin": "mon_cluster", "args": ["--prop", "C04"], "quick": 4000, "thorough": 300000, "what": _CL + "an entry a leader commits under an unchanged configuration is stored on a majority of that configuration's voters"},
}


# leader-level monitors: one real RawNode leading a group whose other members are played by the monitor
LEADER = {
    "C08": {"bin": "mon_c08", "quick": 200000, "thorough": 3000000,
            "what": "one real RawNode<MemStorage> leading 1..=5 voters (elected, an entry of its own term committed) under random local and forwarded read requests, heartbeat responses "
                    "carrying the context of any issued read (older, newer, already answered, duplicated, from any voter), proposals, heartbeat ticks and committed removals of voters (4..27 ops): a read is answered only "
                    "when the leader plus the voters that acknowledged THAT read or a read queued after it (while it was pending) form a quorum of the current voters, to the node that asked, once, with an index "
                    "not below the leader's commit index when the request arrived"},
}


def monitors_of(P):
    """All replay monitors registered for P (component-level first, then the leader-level, then the cluster-level one)."""
    out = []
    if P in MONITORS:
        out.append(MONITORS[P])
    if P in LEADER:
        out.append(LEADER[P])
    if P in CLUSTER:
        out.append(CLUSTER[P])
    return out


def _crate_for(repo):
    """Cargo project that depends on `repo` by path (the committed one points at /repo)."""
    if os.path.realpath(repo) == "/repo":
        return CRATE
    if not os.path.exists(os.path.join(repo, "Cargo.toml")):
        return None  # a bare copy of src/: the real crate cannot be built from it
    alt = os.path.join(ROOT, "build", "replay-alt")
    os.makedirs(alt, exist_ok=True)
    toml = open(os.path.join(CRATE, "Cargo.toml")).read().replace('path = "/repo"', 'path = "%s"' % repo)
    open(os.path.join(alt, "Cargo.toml"), "w").write(toml)
    if not os.path.exists(os.path.join(alt, "src")):
        os.symlink(os.path.join(CRATE, "src"), os.path.join(alt, "src"))
    shutil.copy(os.path.join(repo, "Cargo.lock"), os.path.join(alt, "Cargo.lock"))
    return alt


def build(repo, binname, timeout=900):
    crate = _crate_for(repo)
    if crate is None:
        return None, "real crate not buildable from %s" % repo
    lock = os.path.join(crate, "Cargo.lock")
    if not os.path.exists(lock) and os.path.exists(os.path.join(repo, "Cargo.lock")):
        shutil.copy(os.path.join(repo, "Cargo.lock"), lock)
    env = dict(os.environ, CARGO_TARGET_DIR=TARGET, CARGO_NET_OFFLINE="true")
    try:
        p = subprocess.run(["cargo", "build", "--offline", "--bin", binname], cwd=crate, env=env,
                           stdout=subprocess.PIPE, stderr=subprocess.STDOUT, timeout=timeout)
    except subprocess.TimeoutExpired:
        return None, "cargo build timed out"
    if p.returncode != 0:
        return None, "cargo build failed: " + p.stdout.decode(errors="replace")[-800:]
    return os.path.join(TARGET, "debug", binname), ""


def run_monitor(P, repo, seed, cases=None, replay_input=None, timeout=1200, mon=None):
    mon = mon or MONITORS.get(P) or LEADER.get(P) or CLUSTER.get(P)
    if mon is None:
        return {"status": "none"}
    t0 = time.time()
    exe, err = build(repo, mon["bin"])
    if exe is None:
        return {"status": "unavailable", "reason": err}
    cmd = [exe, "--seed", str(seed)] + list(mon.get("args", []))
    if replay_input is not None:
        cmd += ["--replay", replay_input]
    elif cases:
        cmd += ["--cases", str(cases)]
    try:
        p = subprocess.run(cmd, stdout=subprocess.PIPE, stderr=subprocess.PIPE, timeout=timeout)
    except subprocess.TimeoutExpired:
        return {"status": "unavailable", "reason": "monitor timed out"}
    out = p.stdout.decode(errors="replace").strip().split("\n")
    last = out[-1] if out else ""
    res = {"status": "ok" if p.returncode == 0 else "violation", "cmd": " ".join(cmd), "wall_s": round(time.time() - t0, 1),
           "what": mon["what"]}
    m = re.search(r'"violation":"((?:[^"\\]|\\.)*)"', last)
    if m:
        res["violation"] = m.group(1)
    m = re.search(r'"input":(\{.*\})\}\s*$', last)
    if m:
        res["input"] = m.group(1)
    m = re.search(r'"cases":(\d+)', last)
    if m:
        res["cases"] = int(m.group(1))
    if p.returncode not in (0, 1):
        res["status"] = "violation" if "panicked" in p.stderr.decode(errors="replace") else "unavailable"
        res["violation"] = res.get("violation") or ("monitor aborted: " + p.stderr.decode(errors="replace")[-400:])
    return res


def find_witness(P, failure, repo, seed=1):
    """Concrete failing input on the real crate for a failed/undecided obligation of P, or None."""
    for mon in monitors_of(P):
        r = run_monitor(P, repo, seed, cases=mon["quick"], mon=mon)
        if r.get("status") == "violation" and r.get("input"):
            return {"monitor": mon["bin"], "args": mon.get("args", []), "input": r["input"], "observed": r.get("violation"), "cmd": r.get("cmd")}
    return None


def run_extra(P, tier, seed, repo):
    """Bounded replay of the real crate (never counted as proved): the quick case counts in the quick tier, the large ones in
    the thorough tier.  It is what looks at the abort paths (fatal!/panic!/assert!) of raft.rs and raw_node.rs, which the
    mode-S contracts assume away, and at code behind assumed contracts."""
    out = {}
    reps = []
    for mon in monitors_of(P):
        r = run_monitor(P, repo, seed or 1, cases=mon["thorough"] if tier == "thorough" else mon["quick"], mon=mon)
        reps.append({"monitor": mon["bin"] + " " + " ".join(mon.get("args", [])), "status": r.get("status"), "cases": r.get("cases"), "what": mon["what"],
                     "wall_s": r.get("wall_s"), "note": "bounded replay on the real crate; never counted as proved"})
        if r.get("status") == "violation" and "witness" not in out:
            out["witness"] = {"monitor": mon["bin"], "args": mon.get("args", []), "input": r.get("input"), "observed": r.get("violation"), "cmd": r.get("cmd")}
    if reps:
        out["replay_monitor"] = reps if len(reps) > 1 else reps[0]
    return out


def replay(body, repo):
    P = body["property"]
    w = body.get("witness") or {}
    mon = None
    for m in monitors_of(P):
        if m["bin"] == w.get("monitor"):
            mon = m
    r = run_monitor(P, repo, 1, replay_input=w.get("input"), mon=mon)
    if r.get("status") == "violation":
        print("VIOLATION property=%s replay=%s" % (P, body.get("_path", "")))
        print("  " + (r.get("violation") or ""))
        return 1
    if r.get("status") == "ok":
        print("replayed input no longer violates the property on the current tree")
        return 0
    print("UNDECIDED: %s" % r.get("reason"))
    return 2
