#!/usr/bin/env python3
"""setup: check that the offline tools this framework needs are present; create build dirs. Builds nothing from the network."""
import os, shutil, subprocess, sys
ROOT = os.path.dirname(os.path.dirname(os.path.abspath(__file__)))
for d in ("build", "evidence", "replays"):
    os.makedirs(os.path.join(ROOT, d), exist_ok=True)
ok = True
for tool in ("verus",):
    p = shutil.which(tool)
    print(tool, "->", p)
    ok = ok and p is not None
if ok:
    r = subprocess.run(["verus", "--version"], stdout=subprocess.PIPE, stderr=subprocess.STDOUT)
    print(r.stdout.decode()[:300])
print("kani ->", shutil.which("kani"), "(bounded stand-ins, thorough tier only)")
sys.exit(0 if ok else 1)
